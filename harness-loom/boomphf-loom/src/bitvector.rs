// Copyright (c) 2018 10x Genomics, Inc. All rights reserved.
//
// Note this code was copied from https://github.com/zhaihj/bitvector (MIT licensed),
// and modified to add rank/select operations, and to use atomic primitives to allow
// multi-threaded access. The original copyright license text is here:
//
// The MIT License (MIT)
//
// Copyright (c) 2016 Hongjie Zhai

//! ### BitVector Module
//!
//! BitVector uses one bit to represent a bool state.
//! BitVector is useful for the programs that need fast set operation (intersection, union,
//! difference), because that all these operations can be done with simple bitand, bitor, bitxor.
//!
//! ### Implementation Details
//!
//! BitVector is realized with a `Vec<u64>`. Each bit of an u64 represent if a elements exists.
//! BitVector always increases from the end to begin, it meats that if you add element `0` to an
//! empty bitvector, then the `Vec<u64>` will change from `0x00` to `0x01`.
//!
//! Of course, if the real length of set can not be divided by 64,
//! it will have a `capacity() % 64` bit memory waste.
//!

use std::fmt;
#[cfg(feature = "parallel")]
use loom::sync::atomic::{AtomicU64, Ordering};

#[cfg(feature = "serde")]
use serde::{self, Deserialize, Serialize};

#[cfg(feature = "parallel")]
type Word = AtomicU64;

#[cfg(not(feature = "parallel"))]
type Word = u64;

/// Bitvector
#[derive(Debug)]
#[cfg_attr(feature = "serde", derive(Serialize, Deserialize))]
pub struct BitVector {
    bits: u64,
    #[cfg(feature = "parallel")]
    #[cfg_attr(
        feature = "serde",
        serde(serialize_with = "ser_atomic_vec", deserialize_with = "de_atomic_vec")
    )]
    vector: Box<[AtomicU64]>,

    #[cfg(not(feature = "parallel"))]
    vector: Box<[u64]>,
}

// Custom serializer
#[cfg(all(feature = "serde", feature = "parallel"))]
fn ser_atomic_vec<S>(v: &[AtomicU64], serializer: S) -> Result<S::Ok, S::Error>
where
    S: serde::Serializer,
{
    use serde::ser::SerializeSeq;
    let mut seq = serializer.serialize_seq(Some(v.len()))?;
    for x in v {
        seq.serialize_element(&x.load(Ordering::SeqCst))?;
    }
    seq.end()
}

// Custom deserializer
#[cfg(all(feature = "serde", feature = "parallel"))]
pub fn de_atomic_vec<'de, D>(deserializer: D) -> Result<Box<[AtomicU64]>, D::Error>
where
    D: serde::Deserializer<'de>,
{
    struct AtomicU64SeqVisitor;

    impl<'de> serde::de::Visitor<'de> for AtomicU64SeqVisitor {
        type Value = Box<[AtomicU64]>;

        fn expecting(&self, formatter: &mut fmt::Formatter) -> fmt::Result {
            formatter.write_str("a 64bit unsigned integer")
        }

        fn visit_seq<S>(self, mut access: S) -> Result<Self::Value, S::Error>
        where
            S: serde::de::SeqAccess<'de>,
        {
            let mut vec = Vec::<AtomicU64>::with_capacity(access.size_hint().unwrap_or(0));

            while let Some(x) = access.next_element()? {
                vec.push(AtomicU64::new(x));
            }
            Ok(vec.into_boxed_slice())
        }
    }
    let x = AtomicU64SeqVisitor;
    deserializer.deserialize_seq(x)
}

impl core::clone::Clone for BitVector {
    fn clone(&self) -> Self {
        Self {
            bits: self.bits,
            #[cfg(feature = "parallel")]
            vector: self
                .vector
                .iter()
                .map(|x| AtomicU64::new(x.load(Ordering::SeqCst)))
                .collect(),
            #[cfg(not(feature = "parallel"))]
            vector: self.vector.clone(),
        }
    }
}

impl fmt::Display for BitVector {
    fn fmt(&self, f: &mut fmt::Formatter) -> fmt::Result {
        write!(f, "[")?;
        write!(
            f,
            "{}",
            self.iter()
                .fold(String::new(), |x0, x| x0 + &format!("{}, ", x))
        )?;
        write!(f, "]")?;
        Ok(())
    }
}

impl PartialEq for BitVector {
    fn eq(&self, other: &BitVector) -> bool {
        self.eq_left(other, self.bits)
    }
}

impl BitVector {
    /// Build a new empty bitvector
    pub fn new(bits: u64) -> Self {
        let n = u64s(bits);
        let mut v: Vec<Word> = Vec::with_capacity(n as usize);
        for _ in 0..n {
            v.push(Word::default());
        }

        BitVector {
            bits,
            vector: v.into_boxed_slice(),
        }
    }

    /// new bitvector contains all elements
    ///
    /// If `bits % 64 > 0`, the last u64 is guaranteed not to
    /// have any extra 1 bits.
    #[allow(dead_code)]
    pub fn ones(bits: u64) -> Self {
        let (word, offset) = word_offset(bits);
        let mut bvec: Vec<Word> = Vec::with_capacity((word + 1) as usize);
        for _ in 0..word {
            bvec.push(u64::max_value().into());
        }

        let last_val = u64::max_value() >> (64 - offset);
        bvec.push(last_val.into());
        BitVector {
            bits,
            vector: bvec.into_boxed_slice(),
        }
    }

    /// return if this set is empty
    ///
    /// if set does not contain any elements, return true;
    /// else return false.
    ///
    /// This method is averagely faster than `self.len() > 0`.
    #[allow(dead_code)]
    pub fn is_empty(&self) -> bool {
        #[cfg(feature = "parallel")]
        return self.vector.iter().all(|x| x.load(Ordering::Relaxed) == 0);

        #[cfg(not(feature = "parallel"))]
        return self.vector.iter().all(|x| *x == 0);
    }

    /// the number of elements in set
    pub fn len(&self) -> u64 {
        self.vector.iter().fold(0u64, |x0, x| {
            #[cfg(feature = "parallel")]
            return x0 + x.load(Ordering::Relaxed).count_ones() as u64;

            #[cfg(not(feature = "parallel"))]
            return x0 + x.count_ones() as u64;
        })
    }

    /*
    /// Clear all elements from a bitvector
    pub fn clear(&mut self) {
        for p in &mut self.vector {
            *p = 0;
        }
    }
    */

    /// If `bit` belongs to set, return `true`, else return `false`.
    ///
    /// Insert, remove and contains do not do bound check.
    #[inline]
    pub fn contains(&self, bit: u64) -> bool {
        let (word, mask) = word_mask(bit);
        (self.get_word(word) & mask) != 0
    }

    /// compare if the following is true:
    ///
    /// self \cap {0, 1, ... , bit - 1} == other \cap {0, 1, ... ,bit - 1}
    pub fn eq_left(&self, other: &BitVector, bit: u64) -> bool {
        if bit == 0 {
            return true;
        }
        let (word, offset) = word_offset(bit - 1);
        // We can also use slice comparison, which only take 1 line.
        // However, it has been reported that the `Eq` implementation of slice
        // is extremly slow.
        //
        // self.vector.as_slice()[0 .. word] == other.vector.as_slice[0 .. word]
        //
        self.vector
            .iter()
            .zip(other.vector.iter())
            .take(word as usize)
            .all(|(s1, s2)| {
                #[cfg(feature = "parallel")]
                return s1.load(Ordering::Relaxed) == s2.load(Ordering::Relaxed);

                #[cfg(not(feature = "parallel"))]
                return s1 == s2;
            })
            && (self.get_word(word as usize) << (63 - offset))
                == (other.get_word(word as usize) << (63 - offset))
    }

    /// insert a new element to set
    ///
    /// If value is inserted, return true,
    /// if value already exists in set, return false.
    ///
    /// Insert, remove and contains do not do bound check.
    #[inline]
    #[cfg(feature = "parallel")]
    pub fn insert(&self, bit: u64) -> bool {
        let (word, mask) = word_mask(bit);
        let data = &self.vector[word];

        let prev = data.fetch_or(mask, Ordering::Relaxed);
        prev & mask == 0
    }

    #[inline]
    #[cfg(not(feature = "parallel"))]
    pub fn insert(&mut self, bit: u64) -> bool {
        let (word, mask) = word_mask(bit);
        let data = &mut self.vector[word];

        let prev = *data;
        *data = *data | mask;
        prev & mask == 0
    }

    /// insert a new element synchronously.
    /// requires &mut self, but doesn't use
    /// atomic instructions so may be faster
    /// than `insert()`.
    ///
    /// If value is inserted, return true,
    /// if value already exists in set, return false.
    ///
    /// Insert, remove and contains do not do bound check.
    #[inline]
    pub fn insert_sync(&mut self, bit: u64) -> bool {
        let (word, mask) = word_mask(bit);
        #[cfg(feature = "parallel")]
        return self.vector[word].with_mut(|data| {
            let old_data = *data;
            *data |= mask;
            old_data & mask == 0
        });
        #[cfg(not(feature = "parallel"))]
        {
            let data = &mut self.vector[word];
            let old_data = *data;
            *data |= mask;
            old_data & mask == 0
        }
    }

    /// remove an element from set
    ///
    /// If value is removed, return true,
    /// if value doesn't exist in set, return false.
    ///
    /// Insert, remove and contains do not do bound check.
    #[cfg(feature = "parallel")]
    pub fn remove(&self, bit: u64) -> bool {
        let (word, mask) = word_mask(bit);
        let data = &self.vector[word];

        let prev = data.fetch_and(!mask, Ordering::Relaxed);
        prev & mask != 0
    }

    #[cfg(not(feature = "parallel"))]
    pub fn remove(&mut self, bit: u64) -> bool {
        let (word, mask) = word_mask(bit);
        let data = &mut self.vector[word];

        let prev = *data;
        *data = *data & !mask;
        prev & mask != 0
    }

    /// import elements from another bitvector
    ///
    /// If any new value is inserted, return true,
    /// else return false.
    #[allow(dead_code)]
    #[cfg(feature = "parallel")]
    pub fn insert_all(&self, all: &BitVector) -> bool {
        assert!(self.vector.len() == all.vector.len());
        let mut changed = false;

        for (i, j) in self.vector.iter().zip(all.vector.iter()) {
            let prev = i.fetch_or(j.load(Ordering::Relaxed), Ordering::Relaxed);

            if prev != i.load(Ordering::Relaxed) {
                changed = true;
            }
        }

        changed
    }

    #[allow(dead_code)]
    #[cfg(not(feature = "parallel"))]
    pub fn insert_all(&mut self, all: &BitVector) -> bool {
        assert!(self.vector.len() == all.vector.len());
        let mut changed = false;

        for (i, j) in self.vector.iter_mut().zip(all.vector.iter()) {
            let prev = *i;
            *i |= *j;

            if prev != *i {
                changed = true;
            }
        }

        changed
    }

    /// the max number of elements can be inserted into set
    pub fn capacity(&self) -> u64 {
        self.bits
    }

    #[inline]
    pub fn get_word(&self, word: usize) -> u64 {
        #[cfg(feature = "parallel")]
        return self.vector[word].load(Ordering::Relaxed) as u64;

        #[cfg(not(feature = "parallel"))]
        return self.vector[word] as u64;
    }

    pub fn num_words(&self) -> usize {
        self.vector.len()
    }

    /// Return a iterator of the set element in the bitvector,
    pub fn iter(&self) -> BitVectorIter<'_> {
        BitVectorIter {
            iter: self.vector.iter(),
            current: 0,
            idx: 0,
            size: self.bits,
        }
    }
}

/// Iterator for BitVector
pub struct BitVectorIter<'a> {
    iter: ::std::slice::Iter<'a, Word>,
    current: u64,
    idx: u64,
    size: u64,
}

impl<'a> Iterator for BitVectorIter<'a> {
    type Item = u64;
    fn next(&mut self) -> Option<u64> {
        if self.idx >= self.size {
            return None;
        }
        while self.current == 0 {
            self.current = if let Some(_i) = self.iter.next() {
                #[cfg(feature = "parallel")]
                let i = _i.load(Ordering::Relaxed);
                #[cfg(not(feature = "parallel"))]
                let i = *_i;
                if i == 0 {
                    self.idx += 64;
                    continue;
                } else {
                    self.idx = u64s(self.idx) * 64;
                    i
                }
            } else {
                return None;
            }
        }
        let offset = self.current.trailing_zeros() as u64;
        self.current >>= offset;
        self.current >>= 1; // shift otherwise overflows for 0b1000_0000_…_0000
        self.idx += offset + 1;
        Some(self.idx - 1)
    }
}

fn u64s(elements: u64) -> u64 {
    (elements + 63) / 64
}

fn word_offset(index: u64) -> (u64, u64) {
    (index / 64, index % 64)
}

#[inline]
fn word_mask(index: u64) -> (usize, u64) {
    let word = (index / 64) as usize;
    let mask = 1 << (index % 64);
    (word, mask)
}

#[cfg(test)]
mod tests {
    use super::*;
    #[test]
    fn union_two_vecs() {
        #[allow(unused_mut)]
        let mut vec1 = BitVector::new(65);
        #[allow(unused_mut)]
        let mut vec2 = BitVector::new(65);
        assert!(vec1.insert(3));
        assert!(!vec1.insert(3));
        assert!(vec2.insert(5));
        assert!(vec2.insert(64));
        assert!(vec1.insert_all(&vec2));
        assert!(!vec1.insert_all(&vec2));
        assert!(vec1.contains(3));
        assert!(!vec1.contains(4));
        assert!(vec1.contains(5));
        assert!(!vec1.contains(63));
        assert!(vec1.contains(64));
    }

    #[test]
    fn bitvec_iter_works() {
        #[allow(unused_mut)]
        let mut bitvec = BitVector::new(100);
        bitvec.insert(1);
        bitvec.insert(10);
        bitvec.insert(19);
        bitvec.insert(62);
        bitvec.insert(63);
        bitvec.insert(64);
        bitvec.insert(65);
        bitvec.insert(66);
        bitvec.insert(99);
        assert_eq!(
            bitvec.iter().collect::<Vec<_>>(),
            [1, 10, 19, 62, 63, 64, 65, 66, 99]
        );
    }

    #[test]
    fn bitvec_iter_works_2() {
        #[allow(unused_mut)]
        let mut bitvec = BitVector::new(319);
        bitvec.insert(0);
        bitvec.insert(127);
        bitvec.insert(191);
        bitvec.insert(255);
        bitvec.insert(319);
        assert_eq!(bitvec.iter().collect::<Vec<_>>(), [0, 127, 191, 255, 319]);
    }

    #[test]
    fn eq_left() {
        #[allow(unused_mut)]
        let mut bitvec = BitVector::new(50);
        for i in &[0, 1, 3, 5, 11, 12, 19, 23] {
            bitvec.insert(*i);
        }
        #[allow(unused_mut)]
        let mut bitvec2 = BitVector::new(50);
        for i in &[0, 1, 3, 5, 7, 11, 13, 17, 19, 23] {
            bitvec2.insert(*i);
        }

        assert!(bitvec.eq_left(&bitvec2, 1));
        assert!(bitvec.eq_left(&bitvec2, 2));
        assert!(bitvec.eq_left(&bitvec2, 3));
        assert!(bitvec.eq_left(&bitvec2, 4));
        assert!(bitvec.eq_left(&bitvec2, 5));
        assert!(bitvec.eq_left(&bitvec2, 6));
        assert!(bitvec.eq_left(&bitvec2, 7));
        assert!(!bitvec.eq_left(&bitvec2, 8));
        assert!(!bitvec.eq_left(&bitvec2, 9));
        assert!(!bitvec.eq_left(&bitvec2, 50));
    }

    #[test]
    fn eq() {
        #[allow(unused_mut)]
        let mut bitvec = BitVector::new(50);
        for i in &[0, 1, 3, 5, 11, 12, 19, 23] {
            bitvec.insert(*i);
        }
        #[allow(unused_mut)]
        let mut bitvec2 = BitVector::new(50);
        for i in &[0, 1, 3, 5, 7, 11, 13, 17, 19, 23] {
            bitvec2.insert(*i);
        }
        #[allow(unused_mut)]
        let mut bitvec3 = BitVector::new(50);
        for i in &[0, 1, 3, 5, 11, 12, 19, 23] {
            bitvec3.insert(*i);
        }

        assert!(bitvec != bitvec2);
        assert!(bitvec == bitvec3);
        assert!(bitvec2 != bitvec3);
    }

    #[test]
    fn remove() {
        #[allow(unused_mut)]
        let mut bitvec = BitVector::new(50);
        for i in &[0, 1, 3, 5, 11, 12, 19, 23] {
            bitvec.insert(*i);
        }
        assert!(bitvec.contains(3));
        bitvec.remove(3);
        assert!(!bitvec.contains(3));
        assert_eq!(
            bitvec.iter().collect::<Vec<_>>(),
            vec![0, 1, 5, 11, 12, 19, 23]
        );
    }

    #[test]
    fn is_empty() {
        assert!(!BitVector::ones(60).is_empty());
        assert!(!BitVector::ones(65).is_empty());
        #[allow(unused_mut)]
        let mut bvec = BitVector::new(60);

        assert!(bvec.is_empty());

        bvec.insert(5);
        assert!(!bvec.is_empty());
        bvec.remove(5);
        assert!(bvec.is_empty());
        #[allow(unused_mut)]
        let mut bvec = BitVector::ones(65);
        for i in 0..65 {
            bvec.remove(i);
        }
        assert!(bvec.is_empty());
    }

    #[test]
    fn test_ones() {
        let bvec = BitVector::ones(60);
        for i in 0..60 {
            assert!(bvec.contains(i));
        }
        assert_eq!(bvec.iter().collect::<Vec<_>>(), (0..60).collect::<Vec<_>>());
    }

    #[test]
    fn len() {
        assert_eq!(BitVector::ones(60).len(), 60);
        assert_eq!(BitVector::ones(65).len(), 65);
        assert_eq!(BitVector::new(65).len(), 0);
        #[allow(unused_mut)]
        let mut bvec = BitVector::new(60);
        bvec.insert(5);
        assert_eq!(bvec.len(), 1);
        bvec.insert(6);
        assert_eq!(bvec.len(), 2);
        bvec.remove(5);
        assert_eq!(bvec.len(), 1);
    }
}

#[cfg(all(feature = "unstable", test))]
mod bench {
    extern crate test;
    use self::test::Bencher;
    use super::*;
    use std::collections::{BTreeSet, HashSet};
    #[bench]
    fn bench_bitset_operator(b: &mut Bencher) {
        b.iter(|| {
            #[allow(unused_mut)]
            let mut vec1 = BitVector::new(65);
            #[allow(unused_mut)]
            let mut vec2 = BitVector::new(65);
            for i in vec![0, 1, 2, 10, 15, 18, 25, 31, 40, 42, 60, 64] {
                vec1.insert(i);
            }
            for i in vec![3, 5, 7, 12, 13, 15, 21, 25, 30, 29, 42, 50, 61, 62, 63, 64] {
                vec2.insert(i);
            }
            vec1.intersection(&vec2);
            vec1.union(&vec2);
            vec1.difference(&vec2);
        });
    }

    #[bench]
    fn bench_bitset_operator_inplace(b: &mut Bencher) {
        b.iter(|| {
            #[allow(unused_mut)]
            let mut vec1 = BitVector::new(65);
            #[allow(unused_mut)]
            let mut vec2 = BitVector::new(65);
            for i in vec![0, 1, 2, 10, 15, 18, 25, 31, 40, 42, 60, 64] {
                vec1.insert(i);
            }
            for i in vec![3, 5, 7, 12, 13, 15, 21, 25, 30, 29, 42, 50, 61, 62, 63, 64] {
                vec2.insert(i);
            }
            vec1.intersection_inplace(&vec2);
            vec1.union_inplace(&vec2);
            vec1.difference_inplace(&vec2);
        });
    }

    #[bench]
    fn bench_hashset_operator(b: &mut Bencher) {
        b.iter(|| {
            #[allow(unused_mut)]
            let mut vec1 = HashSet::with_capacity(65);
            #[allow(unused_mut)]
            let mut vec2 = HashSet::with_capacity(65);
            for i in vec![0, 1, 2, 10, 15, 18, 25, 31, 40, 42, 60, 64] {
                vec1.insert(i);
            }
            for i in vec![3, 5, 7, 12, 13, 15, 21, 25, 30, 29, 42, 50, 61, 62, 63, 64] {
                vec2.insert(i);
            }

            vec1.intersection(&vec2).cloned().collect::<HashSet<_>>();
            vec1.union(&vec2).cloned().collect::<HashSet<_>>();
            vec1.difference(&vec2).cloned().collect::<HashSet<_>>();
        });
    }

    #[bench]
    fn bench_btreeset_operator(b: &mut Bencher) {
        b.iter(|| {
            #[allow(unused_mut)]
            let mut vec1 = BTreeSet::new();
            #[allow(unused_mut)]
            let mut vec2 = BTreeSet::new();
            for i in vec![0, 1, 2, 10, 15, 18, 25, 31, 40, 42, 60, 64] {
                vec1.insert(i);
            }
            for i in vec![3, 5, 7, 12, 13, 15, 21, 25, 30, 29, 42, 50, 61, 62, 63, 64] {
                vec2.insert(i);
            }

            vec1.intersection(&vec2).cloned().collect::<HashSet<_>>();
            vec1.union(&vec2).cloned().collect::<HashSet<_>>();
            vec1.difference(&vec2).cloned().collect::<HashSet<_>>();
        });
    }
}
