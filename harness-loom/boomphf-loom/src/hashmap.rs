//! HashMap data structures, using MPHFs to encode the position of each key in a dense array.

#[cfg(feature = "serde")]
use serde::{self, Deserialize, Serialize};

use crate::Mphf;
use std::borrow::Borrow;
use std::fmt::Debug;
use std::hash::Hash;
use std::iter::ExactSizeIterator;

/// A HashMap data structure where the mapping between keys and values is encoded in a Mphf. This lets us store the keys and values in dense
/// arrays, with ~3 bits/item overhead in the Mphf.
#[derive(Debug, Clone)]
#[cfg_attr(feature = "serde", derive(Serialize, Deserialize))]
pub struct BoomHashMap<K: Hash, D> {
    mphf: Mphf<K>,
    pub(crate) keys: Vec<K>,
    pub(crate) values: Vec<D>,
}

impl<K, D> BoomHashMap<K, D>
where
    K: Hash + Debug + PartialEq,
    D: Debug,
{
    fn create_map(mut keys: Vec<K>, mut values: Vec<D>, mphf: Mphf<K>) -> BoomHashMap<K, D> {
        // reorder the keys and values according to the Mphf
        for i in 0..keys.len() {
            loop {
                let kmer_slot = mphf.hash(&keys[i]) as usize;
                if i == kmer_slot {
                    break;
                }
                keys.swap(i, kmer_slot);
                values.swap(i, kmer_slot);
            }
        }
        BoomHashMap { mphf, keys, values }
    }

    /// Create a new hash map from the parallel array `keys` and `values`
    pub fn new(keys: Vec<K>, data: Vec<D>) -> BoomHashMap<K, D> {
        let mphf = Mphf::new(1.7, &keys);
        Self::create_map(keys, data, mphf)
    }

    /// Get the value associated with `key`. You must use a key that was supplied during the creation of the BoomHashMap. Querying for a new key will yield `Some` with a random value, or `None`. Querying with a valid key will always return `Some`.
    pub fn get<Q: ?Sized>(&self, kmer: &Q) -> Option<&D>
    where
        K: Borrow<Q>,
        Q: Hash + Eq,
    {
        let maybe_pos = self.mphf.try_hash(kmer);
        match maybe_pos {
            Some(pos) => {
                let hashed_kmer = &self.keys[pos as usize];
                if kmer == hashed_kmer.borrow() {
                    Some(&self.values[pos as usize])
                } else {
                    None
                }
            }
            None => None,
        }
    }

    /// Mutably get the value associated with `key`. You must use a key that was supplied during the creation of the BoomHashMap. Querying for a new key will yield `Some` with a random value, or `None`. Querying with a valid key will always return `Some`.
    pub fn get_mut<Q: ?Sized>(&mut self, kmer: &Q) -> Option<&mut D>
    where
        K: Borrow<Q>,
        Q: Hash + Eq,
    {
        let maybe_pos = self.mphf.try_hash(kmer);
        match maybe_pos {
            Some(pos) => {
                let hashed_kmer = &self.keys[pos as usize];
                if kmer == hashed_kmer.borrow() {
                    Some(&mut self.values[pos as usize])
                } else {
                    None
                }
            }
            None => None,
        }
    }

    /// Get the position in the Mphf of a key, if the key exists.
    pub fn get_key_id<Q: ?Sized>(&self, kmer: &Q) -> Option<usize>
    where
        K: Borrow<Q>,
        Q: Hash + Eq,
    {
        let maybe_pos = self.mphf.try_hash(kmer);
        match maybe_pos {
            Some(pos) => {
                let hashed_kmer = &self.keys[pos as usize];
                if kmer == hashed_kmer.borrow() {
                    Some(pos as usize)
                } else {
                    None
                }
            }
            None => None,
        }
    }

    /// Total number of key/value pairs
    pub fn len(&self) -> usize {
        self.keys.len()
    }

    pub fn is_empty(&self) -> bool {
        self.keys.is_empty()
    }

    pub fn get_key(&self, id: usize) -> Option<&K> {
        let max_key_id = self.len();
        if id > max_key_id {
            None
        } else {
            Some(&self.keys[id])
        }
    }

    pub fn iter(&self) -> BoomIterator<K, D> {
        BoomIterator {
            hash: self,
            index: 0,
        }
    }
}

impl<K, D> core::iter::FromIterator<(K, D)> for BoomHashMap<K, D>
where
    K: Hash + Debug + PartialEq,
    D: Debug,
{
    fn from_iter<I: IntoIterator<Item = (K, D)>>(iter: I) -> Self {
        let mut keys = Vec::new();
        let mut values = Vec::new();

        for (k, v) in iter {
            keys.push(k);
            values.push(v);
        }
        Self::new(keys, values)
    }
}

#[cfg(feature = "parallel")]
pub trait ConstructibleKey: Hash + Debug + PartialEq + Send + Sync {}

#[cfg(feature = "parallel")]
impl<T> ConstructibleKey for T where T: Hash + Debug + PartialEq + Send + Sync {}

#[cfg(not(feature = "parallel"))]
pub trait ConstructibleKey: Hash + Debug + PartialEq {}

#[cfg(not(feature = "parallel"))]
impl<T> ConstructibleKey for T where T: Hash + Debug + PartialEq {}

#[cfg(feature = "parallel")]
impl<K, D> BoomHashMap<K, D>
where
    K: Hash + Debug + PartialEq + Send + Sync,
    D: Debug,
{
    /// Create a new hash map from the parallel array `keys` and `values`, using a parallelized method to construct the Mphf.
    pub fn new_parallel(keys: Vec<K>, data: Vec<D>) -> BoomHashMap<K, D> {
        let mphf = Mphf::new_parallel(1.7, &keys, None);
        Self::create_map(keys, data, mphf)
    }
}

/// Iterate over key-value pairs in a BoomHashMap
pub struct BoomIterator<'a, K: Hash + 'a, D: 'a> {
    hash: &'a BoomHashMap<K, D>,
    index: usize,
}

impl<'a, K: Hash, D> Iterator for BoomIterator<'a, K, D> {
    type Item = (&'a K, &'a D);

    fn next(&mut self) -> Option<Self::Item> {
        if self.index == self.hash.keys.len() {
            return None;
        }

        let elements = Some((&self.hash.keys[self.index], &self.hash.values[self.index]));
        self.index += 1;

        elements
    }

    fn size_hint(&self) -> (usize, Option<usize>) {
        let remaining = self.hash.keys.len() - self.index;
        (remaining, Some(remaining))
    }
}

impl<'a, K: Hash, D1> ExactSizeIterator for BoomIterator<'a, K, D1> {}

impl<'a, K: Hash, D> IntoIterator for &'a BoomHashMap<K, D> {
    type Item = (&'a K, &'a D);
    type IntoIter = BoomIterator<'a, K, D>;

    fn into_iter(self) -> BoomIterator<'a, K, D> {
        BoomIterator {
            hash: self,
            index: 0,
        }
    }
}

/// A HashMap data structure where the mapping between keys and 2 values is encoded in a Mphf. You should usually use `BoomHashMap` with a tuple/struct value type.
/// If the layout overhead of the struct / tuple must be avoided, this variant of is an alternative.
/// This lets us store the keys and values in dense
/// arrays, with ~3 bits/item overhead in the Mphf.
#[derive(Debug, Clone)]
#[cfg_attr(feature = "serde", derive(Serialize, Deserialize))]
pub struct BoomHashMap2<K: Hash, D1, D2> {
    mphf: Mphf<K>,
    keys: Vec<K>,
    values: Vec<D1>,
    aux_values: Vec<D2>,
}

pub struct Boom2Iterator<'a, K: Hash + 'a, D1: 'a, D2: 'a> {
    hash: &'a BoomHashMap2<K, D1, D2>,
    index: usize,
}

impl<'a, K: Hash, D1, D2> Iterator for Boom2Iterator<'a, K, D1, D2> {
    type Item = (&'a K, &'a D1, &'a D2);

    fn next(&mut self) -> Option<Self::Item> {
        if self.index == self.hash.keys.len() {
            return None;
        }

        let elements = Some((
            &self.hash.keys[self.index],
            &self.hash.values[self.index],
            &self.hash.aux_values[self.index],
        ));
        self.index += 1;
        elements
    }

    fn size_hint(&self) -> (usize, Option<usize>) {
        let remaining = self.hash.keys.len() - self.index;
        (remaining, Some(remaining))
    }
}

impl<'a, K: Hash, D1, D2> ExactSizeIterator for Boom2Iterator<'a, K, D1, D2> {}

impl<'a, K: Hash, D1, D2> IntoIterator for &'a BoomHashMap2<K, D1, D2> {
    type Item = (&'a K, &'a D1, &'a D2);
    type IntoIter = Boom2Iterator<'a, K, D1, D2>;

    fn into_iter(self) -> Boom2Iterator<'a, K, D1, D2> {
        Boom2Iterator {
            hash: self,
            index: 0,
        }
    }
}

impl<K, D1, D2> BoomHashMap2<K, D1, D2>
where
    K: Hash + Debug + PartialEq,
    D1: Debug,
    D2: Debug,
{
    fn create_map(
        mut keys: Vec<K>,
        mut values: Vec<D1>,
        mut aux_values: Vec<D2>,
        mphf: Mphf<K>,
    ) -> BoomHashMap2<K, D1, D2> {
        // reorder the keys and values according to the Mphf
        for i in 0..keys.len() {
            loop {
                let kmer_slot = mphf.hash(&keys[i]) as usize;
                if i == kmer_slot {
                    break;
                }
                keys.swap(i, kmer_slot);
                values.swap(i, kmer_slot);
                aux_values.swap(i, kmer_slot);
            }
        }

        BoomHashMap2 {
            mphf,
            keys,
            values,
            aux_values,
        }
    }

    /// Create a new hash map from the parallel arrays `keys` and `values`, and `aux_values`
    pub fn new(keys: Vec<K>, values: Vec<D1>, aux_values: Vec<D2>) -> BoomHashMap2<K, D1, D2> {
        let mphf = Mphf::new(1.7, &keys);
        Self::create_map(keys, values, aux_values, mphf)
    }

    pub fn get<Q: ?Sized>(&self, kmer: &Q) -> Option<(&D1, &D2)>
    where
        K: Borrow<Q>,
        Q: Hash + Eq,
    {
        let maybe_pos = self.mphf.try_hash(kmer);
        match maybe_pos {
            Some(pos) => {
                let hashed_kmer = &self.keys[pos as usize];
                if kmer == hashed_kmer.borrow() {
                    Some((&self.values[pos as usize], &self.aux_values[pos as usize]))
                } else {
                    None
                }
            }
            None => None,
        }
    }

    pub fn get_mut<Q: ?Sized>(&mut self, kmer: &Q) -> Option<(&mut D1, &mut D2)>
    where
        K: Borrow<Q>,
        Q: Hash + Eq,
    {
        let maybe_pos = self.mphf.try_hash(kmer);
        match maybe_pos {
            Some(pos) => {
                let hashed_kmer = &self.keys[pos as usize];
                if kmer == hashed_kmer.borrow() {
                    Some((
                        &mut self.values[pos as usize],
                        &mut self.aux_values[pos as usize],
                    ))
                } else {
                    None
                }
            }
            None => None,
        }
    }

    pub fn get_key_id<Q: ?Sized>(&self, kmer: &Q) -> Option<usize>
    where
        K: Borrow<Q>,
        Q: Hash + Eq,
    {
        let maybe_pos = self.mphf.try_hash(kmer);
        match maybe_pos {
            Some(pos) => {
                let hashed_kmer = &self.keys[pos as usize];
                if kmer == hashed_kmer.borrow() {
                    Some(pos as usize)
                } else {
                    None
                }
            }
            None => None,
        }
    }

    pub fn len(&self) -> usize {
        self.keys.len()
    }

    pub fn is_empty(&self) -> bool {
        self.keys.is_empty()
    }

    // Return iterator over key-values pairs
    pub fn iter(&self) -> Boom2Iterator<K, D1, D2> {
        Boom2Iterator {
            hash: self,
            index: 0,
        }
    }

    pub fn get_key(&self, id: usize) -> Option<&K> {
        let max_key_id = self.len();
        if id > max_key_id {
            None
        } else {
            Some(&self.keys[id])
        }
    }
}

impl<K, D1, D2> core::iter::FromIterator<(K, D1, D2)> for BoomHashMap2<K, D1, D2>
where
    K: Hash + Debug + PartialEq,
    D1: Debug,
    D2: Debug,
{
    fn from_iter<I: IntoIterator<Item = (K, D1, D2)>>(iter: I) -> Self {
        let mut keys = Vec::new();
        let mut values1 = Vec::new();
        let mut values2 = Vec::new();

        for (k, v1, v2) in iter {
            keys.push(k);
            values1.push(v1);
            values2.push(v2);
        }
        Self::new(keys, values1, values2)
    }
}

#[cfg(feature = "parallel")]
impl<K, D1, D2> BoomHashMap2<K, D1, D2>
where
    K: Hash + Debug + PartialEq + Send + Sync,
    D1: Debug,
    D2: Debug,
{
    /// Create a new hash map from the parallel arrays `keys` and `values`, and `aux_values`, using a parallel algorithm to construct the Mphf.
    pub fn new_parallel(keys: Vec<K>, data: Vec<D1>, aux_data: Vec<D2>) -> BoomHashMap2<K, D1, D2> {
        let mphf = Mphf::new_parallel(1.7, &keys, None);
        Self::create_map(keys, data, aux_data, mphf)
    }
}

/// A HashMap data structure where the mapping between keys and values is encoded in a Mphf. *Keys are not stored* - this can greatly improve the memory consumption,
/// but can only be used if you can guarantee that you will only query for keys that were in the original set.  Querying for a new key will return a random value, silently.
#[derive(Debug, Clone)]
#[cfg_attr(feature = "serde", derive(Serialize, Deserialize))]
pub struct NoKeyBoomHashMap<K, D1> {
    pub mphf: Mphf<K>,
    pub values: Vec<D1>,
}

impl<K, D1> core::iter::FromIterator<(K, D1)> for NoKeyBoomHashMap<K, D1>
where
    K: ConstructibleKey,
    D1: Debug,
{
    fn from_iter<I: IntoIterator<Item = (K, D1)>>(iter: I) -> Self {
        let mut keys = Vec::new();
        let mut values1 = Vec::new();

        for (k, v1) in iter {
            keys.push(k);
            values1.push(v1);
        }

        #[cfg(feature = "parallel")]
        return Self::new_parallel(keys, values1);

        #[cfg(not(feature = "parallel"))]
        return Self::new(keys, values1);
    }
}

impl<K, D1> NoKeyBoomHashMap<K, D1>
where
    K: ConstructibleKey,
    D1: Debug,
{
    fn create_map(mut keys: Vec<K>, mut values: Vec<D1>, mphf: Mphf<K>) -> NoKeyBoomHashMap<K, D1> {
        for i in 0..keys.len() {
            loop {
                let kmer_slot = mphf.hash(&keys[i]) as usize;
                if i == kmer_slot {
                    break;
                }
                keys.swap(i, kmer_slot);
                values.swap(i, kmer_slot);
            }
        }

        NoKeyBoomHashMap { mphf, values }
    }

    /// Create a new hash map from the parallel array `keys` and `values`
    /// serially using only this thread.
    pub fn new(keys: Vec<K>, data: Vec<D1>) -> NoKeyBoomHashMap<K, D1> {
        let mphf = Mphf::new(1.7, &keys);
        Self::create_map(keys, data, mphf)
    }

    /// Create a new hash map from the parallel array `keys` and `values`.
    #[cfg(feature = "parallel")]
    pub fn new_parallel(keys: Vec<K>, values: Vec<D1>) -> NoKeyBoomHashMap<K, D1> {
        let mphf = Mphf::new_parallel(1.7, &keys, None);
        Self::create_map(keys, values, mphf)
    }

    pub fn new_with_mphf(mphf: Mphf<K>, values: Vec<D1>) -> NoKeyBoomHashMap<K, D1> {
        NoKeyBoomHashMap { mphf, values }
    }

    /// Get the value associated with `key`. You must use a key that was supplied during the creation of the BoomHashMap. Querying for a new key will yield `Some` with a random value, or `None`. Querying with a valid key will always return `Some`.
    pub fn get<Q: ?Sized>(&self, kmer: &Q) -> Option<&D1>
    where
        K: Borrow<Q>,
        Q: Hash + Eq,
    {
        let maybe_pos = self.mphf.try_hash(kmer);
        match maybe_pos {
            Some(pos) => Some(&self.values[pos as usize]),
            _ => None,
        }
    }

    /// Mutably get the value associated with `key`. You must use a key that was supplied during the creation of the BoomHashMap. Querying for a new key will yield `Some` with a random value, or `None`. Querying with a valid key will always return `Some`.
    pub fn get_mut<Q: ?Sized>(&mut self, kmer: &Q) -> Option<&mut D1>
    where
        K: Borrow<Q>,
        Q: Hash + Eq,
    {
        let maybe_pos = self.mphf.try_hash(kmer);
        match maybe_pos {
            Some(pos) => Some(&mut self.values[pos as usize]),
            _ => None,
        }
    }
}

/// A HashMap data structure where the mapping between keys and values is encoded in a Mphf. *Keys are not stored* - this can greatly improve the memory consumption,
/// but can only be used if you can guarantee that you will only query for keys that were in the original set.  Querying for a new key will return a random value, silently.
#[derive(Debug, Clone)]
#[cfg_attr(feature = "serde", derive(Serialize, Deserialize))]
pub struct NoKeyBoomHashMap2<K, D1, D2> {
    pub mphf: Mphf<K>,
    pub values: Vec<D1>,
    pub aux_values: Vec<D2>,
}

impl<K, D1, D2> core::iter::FromIterator<(K, D1, D2)> for NoKeyBoomHashMap2<K, D1, D2>
where
    K: ConstructibleKey,
    D1: Debug,
    D2: Debug,
{
    fn from_iter<I: IntoIterator<Item = (K, D1, D2)>>(iter: I) -> Self {
        let mut keys = Vec::new();
        let mut values1 = Vec::new();
        let mut values2 = Vec::new();

        for (k, v1, v2) in iter {
            keys.push(k);
            values1.push(v1);
            values2.push(v2);
        }

        #[cfg(feature = "parallel")]
        return Self::new_parallel(keys, values1, values2);

        #[cfg(not(feature = "parallel"))]
        return Self::new(keys, values1, values2);
    }
}

impl<K, D1, D2> NoKeyBoomHashMap2<K, D1, D2>
where
    K: ConstructibleKey,
    D1: Debug,
    D2: Debug,
{
    fn create_map(
        mphf: Mphf<K>,
        mut keys: Vec<K>,
        mut values: Vec<D1>,
        mut aux_values: Vec<D2>,
    ) -> Self {
        for i in 0..keys.len() {
            loop {
                let kmer_slot = mphf.hash(&keys[i]) as usize;
                if i == kmer_slot {
                    break;
                }
                keys.swap(i, kmer_slot);
                values.swap(i, kmer_slot);
                aux_values.swap(i, kmer_slot);
            }
        }
        NoKeyBoomHashMap2 {
            mphf,
            values,
            aux_values,
        }
    }

    pub fn new(keys: Vec<K>, values: Vec<D1>, aux_values: Vec<D2>) -> NoKeyBoomHashMap2<K, D1, D2> {
        let mphf = Mphf::new(1.7, &keys);
        Self::create_map(mphf, keys, values, aux_values)
    }

    #[cfg(feature = "parallel")]
    pub fn new_parallel(
        keys: Vec<K>,
        values: Vec<D1>,
        aux_values: Vec<D2>,
    ) -> NoKeyBoomHashMap2<K, D1, D2> {
        let mphf = Mphf::new_parallel(1.7, &keys, None);
        Self::create_map(mphf, keys, values, aux_values)
    }

    pub fn new_with_mphf(
        mphf: Mphf<K>,
        values: Vec<D1>,
        aux_values: Vec<D2>,
    ) -> NoKeyBoomHashMap2<K, D1, D2> {
        NoKeyBoomHashMap2 {
            mphf,
            values,
            aux_values,
        }
    }

    /// Get the value associated with `key`. You must use a key that was supplied during the creation of the BoomHashMap. Querying for a new key will yield `Some` with a random value, or `None`. Querying with a valid key will always return `Some`.
    pub fn get<Q: ?Sized>(&self, kmer: &Q) -> Option<(&D1, &D2)>
    where
        K: Borrow<Q>,
        Q: Hash + Eq,
    {
        let maybe_pos = self.mphf.try_hash(kmer);
        maybe_pos.map(|pos| (&self.values[pos as usize], &self.aux_values[pos as usize]))
    }

    /// Mutably get the value associated with `key`. You must use a key that was supplied during the creation of the BoomHashMap. Querying for a new key will yield `Some` with a random value, or `None`. Querying with a valid key will always return `Some`.
    pub fn get_mut<Q: ?Sized>(&mut self, kmer: &Q) -> Option<(&mut D1, &mut D2)>
    where
        K: Borrow<Q>,
        Q: Hash + Eq,
    {
        let maybe_pos = self.mphf.try_hash(kmer);
        maybe_pos.map(|pos| {
            (
                &mut self.values[pos as usize],
                &mut self.aux_values[pos as usize],
            )
        })
    }
}
