// Copyright (c) 2017 10X Genomics, Inc. All rights reserved.
// Copyright (c) 2015 Guillaume Rizk
// Some portions of this code are derived from https://github.com/rizkg/BBHash (MIT license)

//! ### boomphf - Fast and scalable minimal perfect hashing for massive key sets
//! A Rust implementation of the BBHash method for constructing minimal perfect hash functions,
//! as described in "Fast and scalable minimal perfect hashing for massive key sets"
//! [https://arxiv.org/abs/1702.03154](https://arxiv.org/abs/1702.03154). The library generates
//! a minimal perfect hash function (MPHF) for a collection of hashable objects. Note: minimal
//! perfect hash functions can only be used with the set of objects used when hash function
//! was created. Hashing a new object will return an arbitrary hash value. If your use case
//! may result in hashing new values, you will need an auxiliary scheme to detect this condition.
//!
//! ```
//! use boomphf::*;
//! // Generate MPHF
//! let possible_objects = vec![1, 10, 1000, 23, 457, 856, 845, 124, 912];
//! let n = possible_objects.len();
//! let phf = Mphf::new(1.7, &possible_objects);
//! // Get hash value of all objects
//! let mut hashes = Vec::new();
//! for v in possible_objects {
//!     hashes.push(phf.hash(&v));
//! }
//! hashes.sort();
//!
//! // Expected hash output is set of all integers from 0..n
//! let expected_hashes: Vec<u64> = (0 .. n as u64).collect();
//! assert!(hashes == expected_hashes)
//! ```

#[cfg(feature = "parallel")]
use rayon::prelude::*;

mod bitvector;
pub mod hashmap;
use bitvector::BitVector;

use log::error;
use std::borrow::Borrow;
use std::fmt::Debug;
use std::hash::Hash;
use std::hash::Hasher;
use std::marker::PhantomData;
#[cfg(feature = "parallel")]
use loom::sync::atomic::{AtomicBool, AtomicU64, Ordering};

#[cfg(feature = "serde")]
use serde::{self, Deserialize, Serialize};

#[inline]
fn fold(v: u64) -> u32 {
    ((v & 0xFFFFFFFF) as u32) ^ ((v >> 32) as u32)
}

#[inline]
fn hash_with_seed<T: Hash + ?Sized>(iter: u64, v: &T) -> u64 {
    let mut state = wyhash::WyHash::with_seed(1 << (iter + iter));
    v.hash(&mut state);
    state.finish()
}

#[inline]
fn hash_with_seed32<T: Hash + ?Sized>(iter: u64, v: &T) -> u32 {
    fold(hash_with_seed(iter, v))
}

#[inline]
fn fastmod(hash: u32, n: u32) -> u64 {
    ((hash as u64) * (n as u64)) >> 32
}

#[inline]
fn hashmod<T: Hash + ?Sized>(iter: u64, v: &T, n: u64) -> u64 {
    // when n < 2^32, use the fast alternative to modulo described here:
    // https://lemire.me/blog/2016/06/27/a-fast-alternative-to-the-modulo-reduction/
    if n < (1 << 32) {
        let h = hash_with_seed32(iter, v);
        fastmod(h, n as u32) as u64
    } else {
        let h = hash_with_seed(iter, v);
        h % (n as u64)
    }
}

/// A minimal perfect hash function over a set of objects of type `T`.
#[derive(Clone, Debug)]
#[cfg_attr(feature = "serde", derive(Serialize, Deserialize))]
pub struct Mphf<T> {
    bitvecs: Box<[(BitVector, Box<[u64]>)]>,
    phantom: PhantomData<T>,
}

const MAX_ITERS: u64 = 100;

impl<'a, T: 'a + Hash + Debug> Mphf<T> {
    /// Constructs an MPHF from a (possibly lazy) iterator over iterators.
    /// This allows construction of very large MPHFs without holding all the keys
    /// in memory simultaneously.
    /// `objects` is an `IntoInterator` yielding a stream of `IntoIterator`s that must not contain any duplicate items.
    /// `objects` must be able to be iterated over multiple times and yield the same stream of items each time.
    /// `gamma` controls the tradeoff between the construction-time and run-time speed,
    /// and the size of the datastructure representing the hash function. See the paper for details.
    /// `n` is the total number of items that will be produced by iterating over all the input iterators.
    /// NOTE: the inner iterator `N::IntoIter` should override `nth` if there's an efficient way to skip
    /// over items when iterating.  This is important because later iterations of the MPHF construction algorithm
    /// skip most of the items.
    pub fn from_chunked_iterator<I, N>(gamma: f64, objects: &'a I, n: u64) -> Mphf<T>
    where
        &'a I: IntoIterator<Item = N>,
        N: IntoIterator<Item = T> + Send,
        <N as IntoIterator>::IntoIter: ExactSizeIterator,
        <&'a I as IntoIterator>::IntoIter: Send,
        I: Sync,
    {
        let mut iter = 0;
        let mut bitvecs = Vec::new();
        #[allow(unused_mut)]
        let mut done_keys = BitVector::new(std::cmp::max(255, n));

        assert!(gamma > 1.01);

        loop {
            if iter > MAX_ITERS {
                error!("ran out of key space. items: {:?}", done_keys.len());
                panic!("counldn't find unique hashes");
            }

            let keys_remaining = if iter == 0 {
                n
            } else {
                n - (done_keys.len() as u64)
            };

            let size = std::cmp::max(255, (gamma * keys_remaining as f64) as u64);

            let mut a = BitVector::new(size);
            let mut collide = BitVector::new(size);

            let seed = iter;
            let mut offset = 0u64;

            for object in objects {
                let mut object_iter = object.into_iter();

                // Note: we will use Iterator::nth() to advance the iterator if
                // we've skipped over some items.
                let mut object_pos = 0;
                let len = object_iter.len() as u64;

                for object_index in 0..len {
                    let index = offset + object_index;

                    if !done_keys.contains(index) {
                        let key = match object_iter.nth((object_index - object_pos) as usize) {
                            None => panic!("ERROR: max number of items overflowed"),
                            Some(key) => key,
                        };

                        object_pos = object_index + 1;

                        let idx = hashmod(seed, &key, size);

                        if collide.contains(idx) {
                            continue;
                        }
                        let a_was_set = !a.insert_sync(idx);
                        if a_was_set {
                            collide.insert_sync(idx);
                        }
                    }
                } // end-window for

                offset += len;
            } // end-objects for

            let mut offset = 0u64;
            for object in objects {
                let mut object_iter = object.into_iter();

                // Note: we will use Iterator::nth() to advance the iterator if
                // we've skipped over some items.
                let mut object_pos = 0;
                let len = object_iter.len() as u64;

                for object_index in 0..len {
                    let index = offset + object_index;

                    if !done_keys.contains(index) {
                        // This will fast-forward the iterator over unneeded items.
                        let key = match object_iter.nth((object_index - object_pos) as usize) {
                            None => panic!("ERROR: max number of items overflowed"),
                            Some(key) => key,
                        };

                        object_pos = object_index + 1;

                        let idx = hashmod(seed, &key, size);

                        if collide.contains(idx) {
                            a.remove(idx);
                        } else {
                            done_keys.insert(index);
                        }
                    }
                } // end-window for

                offset += len;
            } // end- objects for

            bitvecs.push(a);
            if done_keys.len() as u64 == n {
                break;
            }
            iter += 1;
        }

        Mphf {
            bitvecs: Self::compute_ranks(bitvecs),
            phantom: PhantomData,
        }
    }
}

impl<T: Hash + Debug> Mphf<T> {
    /// Generate a minimal perfect hash function for the set of `objects`.
    /// `objects` must not contain any duplicate items.
    /// `gamma` controls the tradeoff between the construction-time and run-time speed,
    /// and the size of the datastructure representing the hash function. See the paper for details.
    /// `max_iters` - None to never stop trying to find a perfect hash (safe if no duplicates).
    pub fn new(gamma: f64, objects: &[T]) -> Mphf<T> {
        assert!(gamma > 1.01);
        let mut bitvecs = Vec::new();
        let mut iter = 0;

        let mut cx = Context::new(
            std::cmp::max(255, (gamma * objects.len() as f64) as u64),
            iter,
        );

        objects.iter().for_each(|v| cx.find_collisions_sync(v));
        let mut redo_keys = objects
            .iter()
            .filter_map(|v| cx.filter(v))
            .collect::<Vec<_>>();

        bitvecs.push(cx.a);
        iter += 1;

        while !redo_keys.is_empty() {
            let mut cx = Context::new(
                std::cmp::max(255, (gamma * redo_keys.len() as f64) as u64),
                iter,
            );

            redo_keys.iter().for_each(|&v| cx.find_collisions_sync(v));
            redo_keys = redo_keys.into_iter().filter_map(|v| cx.filter(v)).collect();

            bitvecs.push(cx.a);
            iter += 1;
            if iter > MAX_ITERS {
                error!("ran out of key space. items: {:?}", redo_keys);
                panic!("counldn't find unique hashes");
            }
        }

        Mphf {
            bitvecs: Self::compute_ranks(bitvecs),
            phantom: PhantomData,
        }
    }

    fn compute_ranks(bvs: Vec<BitVector>) -> Box<[(BitVector, Box<[u64]>)]> {
        let mut ranks = Vec::new();
        let mut pop = 0_u64;

        for bv in bvs {
            let mut rank: Vec<u64> = Vec::new();
            for i in 0..bv.num_words() {
                let v = bv.get_word(i);

                if i % 8 == 0 {
                    rank.push(pop)
                }

                pop += v.count_ones() as u64;
            }

            ranks.push((bv, rank.into_boxed_slice()))
        }

        ranks.into_boxed_slice()
    }

    #[inline]
    fn get_rank(&self, hash: u64, i: usize) -> u64 {
        let idx = hash as usize;
        let (bv, ranks) = self.bitvecs.get(i).expect("that level doesn't exist");

        // Last pre-computed rank
        let mut rank = ranks[idx / 512];

        // Add rank of intervening words
        for j in (idx / 64) & !7..idx / 64 {
            rank += bv.get_word(j).count_ones() as u64;
        }

        // Add rank of final word up to hash
        let final_word = bv.get_word(idx / 64);
        if idx % 64 > 0 {
            rank += (final_word << (64 - (idx % 64))).count_ones() as u64;
        }
        rank
    }

    /// Compute the hash value of `item`. This method should only be used
    /// with items known to be in construction set. Use `try_hash` if you cannot
    /// guarantee that `item` was in the construction set. If `item` was not present
    /// in the construction set this function may panic.
    pub fn hash(&self, item: &T) -> u64 {
        for i in 0..self.bitvecs.len() {
            let (bv, _) = &self.bitvecs[i];
            let hash = hashmod(i as u64, item, bv.capacity() as u64);

            if bv.contains(hash) {
                return self.get_rank(hash, i);
            }
        }

        unreachable!("must find a hash value");
    }

    /// Compute the hash value of `item`. If `item` was not present
    /// in the set of objects used to construct the hash function, the return
    /// value will an arbitrary value Some(x), or None.
    pub fn try_hash<Q>(&self, item: &Q) -> Option<u64>
    where
        T: Borrow<Q>,
        Q: ?Sized + Hash,
    {
        for i in 0..self.bitvecs.len() {
            let (bv, _) = &(self.bitvecs)[i];
            let hash = hashmod(i as u64, item, bv.capacity() as u64);

            if bv.contains(hash) {
                return Some(self.get_rank(hash, i));
            }
        }

        None
    }
}

#[cfg(feature = "parallel")]
impl<T: Hash + Debug + Sync + Send> Mphf<T> {
    /// Same as `new`, but parallelizes work on the rayon default Rayon threadpool.
    /// Configure the number of threads on that threadpool to control CPU usage.
    #[cfg(feature = "parallel")]
    pub fn new_parallel(gamma: f64, objects: &[T], starting_seed: Option<u64>) -> Mphf<T> {
        assert!(gamma > 1.01);
        let mut bitvecs = Vec::new();
        let mut iter = 0;

        let cx = Context::new(
            std::cmp::max(255, (gamma * objects.len() as f64) as u64),
            starting_seed.unwrap_or(0) + iter,
        );

        objects.into_par_iter().for_each(|v| cx.find_collisions(v));
        let mut redo_keys = objects
            .into_par_iter()
            .filter_map(|v| cx.filter(v))
            .collect::<Vec<_>>();

        bitvecs.push(cx.a);
        iter += 1;

        while !redo_keys.is_empty() {
            let cx = Context::new(
                std::cmp::max(255, (gamma * redo_keys.len() as f64) as u64),
                starting_seed.unwrap_or(0) + iter,
            );

            (&redo_keys)
                .into_par_iter()
                .for_each(|&v| cx.find_collisions(v));
            redo_keys = (&redo_keys)
                .into_par_iter()
                .filter_map(|&v| cx.filter(v))
                .collect();

            bitvecs.push(cx.a);
            iter += 1;
            if iter > MAX_ITERS {
                println!("ran out of key space. items: {:?}", redo_keys);
                panic!("counldn't find unique hashes");
            }
        }

        Mphf {
            bitvecs: Self::compute_ranks(bitvecs),
            phantom: PhantomData,
        }
    }
}

struct Context {
    size: u64,
    seed: u64,
    a: BitVector,
    collide: BitVector,
}

impl Context {
    fn new(size: u64, seed: u64) -> Self {
        Self {
            size: size as u64,
            seed,
            a: BitVector::new(size),
            collide: BitVector::new(size),
        }
    }

    #[cfg(feature = "parallel")]
    fn find_collisions<T: Hash>(&self, v: &T) {
        let idx = hashmod(self.seed, v, self.size);
        if !self.collide.contains(idx) && !self.a.insert(idx) {
            self.collide.insert(idx);
        }
    }

    fn find_collisions_sync<T: Hash>(&mut self, v: &T) {
        let idx = hashmod(self.seed, v, self.size);
        if !self.collide.contains(idx) && !self.a.insert_sync(idx) {
            self.collide.insert_sync(idx);
        }
    }

    #[cfg(feature = "parallel")]
    fn filter<'t, T: Hash>(&self, v: &'t T) -> Option<&'t T> {
        let idx = hashmod(self.seed, v, self.size);
        if self.collide.contains(idx) {
            self.a.remove(idx);
            Some(v)
        } else {
            None
        }
    }

    #[cfg(not(feature = "parallel"))]
    fn filter<'t, T: Hash>(&mut self, v: &'t T) -> Option<&'t T> {
        let idx = hashmod(self.seed, v, self.size);
        if self.collide.contains(idx) {
            self.a.remove(idx);
            Some(v)
        } else {
            None
        }
    }
}

#[cfg(test)]
#[macro_use]
extern crate quickcheck;

#[cfg(test)]
mod tests {

    use super::*;
    use std::collections::HashSet;
    use std::iter::FromIterator;

    /// Check that a Minimal perfect hash function (MPHF) is generated for the set xs
    fn check_mphf<T>(xs: HashSet<T>) -> bool
    where
        T: Sync + Hash + PartialEq + Eq + Debug + Send,
    {
        let xsv: Vec<T> = xs.into_iter().collect();

        // test single-shot data input
        check_mphf_serial(&xsv) && check_mphf_parallel(&xsv)
    }

    /// Check that a Minimal perfect hash function (MPHF) is generated for the set xs
    fn check_mphf_serial<T>(xsv: &[T]) -> bool
    where
        T: Hash + PartialEq + Eq + Debug,
    {
        // Generate the MPHF
        let phf = Mphf::new(1.7, xsv);

        // Hash all the elements of xs
        let mut hashes: Vec<u64> = xsv.iter().map(|v| phf.hash(v)).collect();

        hashes.sort_unstable();

        // Hashes must equal 0 .. n
        let gt: Vec<u64> = (0..xsv.len() as u64).collect();
        hashes == gt
    }

    /// Check that a Minimal perfect hash function (MPHF) is generated for the set xs
    #[cfg(feature = "parallel")]
    fn check_mphf_parallel<T>(xsv: &[T]) -> bool
    where
        T: Sync + Hash + PartialEq + Eq + Debug + Send,
    {
        // Generate the MPHF
        let phf = Mphf::new_parallel(1.7, xsv, None);

        // Hash all the elements of xs
        let mut hashes: Vec<u64> = xsv.iter().map(|v| phf.hash(v)).collect();

        hashes.sort_unstable();

        // Hashes must equal 0 .. n
        let gt: Vec<u64> = (0..xsv.len() as u64).collect();
        hashes == gt
    }

    #[cfg(not(feature = "parallel"))]
    fn check_mphf_parallel<T>(_xsv: &[T]) -> bool
    where
        T: Hash + PartialEq + Eq + Debug,
    {
        true
    }

    fn check_chunked_mphf<T>(values: Vec<Vec<T>>, total: u64) -> bool
    where
        T: Sync + Hash + PartialEq + Eq + Debug + Send,
    {
        let phf = Mphf::from_chunked_iterator(1.7, &values, total);

        // Hash all the elements of xs
        let mut hashes: Vec<u64> = values
            .iter()
            .flat_map(|x| x.iter().map(|v| phf.hash(&v)))
            .collect();

        hashes.sort_unstable();

        // Hashes must equal 0 .. n
        let gt: Vec<u64> = (0..total as u64).collect();
        hashes == gt
    }

    #[cfg(feature = "parallel")]
    fn check_chunked_mphf_parallel<T>(values: Vec<Vec<T>>, total: u64) -> bool
    where
        T: Sync + Hash + PartialEq + Eq + Debug + Send,
    {
        let phf = Mphf::from_chunked_iterator_parallel(1.7, &values, None, total, 2);

        // Hash all the elements of xs
        let mut hashes: Vec<u64> = values
            .iter()
            .flat_map(|x| x.iter().map(|v| phf.hash(&v)))
            .collect();

        hashes.sort_unstable();

        // Hashes must equal 0 .. n
        let gt: Vec<u64> = (0..total as u64).collect();
        hashes == gt
    }

    #[cfg(not(feature = "parallel"))]
    fn check_chunked_mphf_parallel<T>(_values: Vec<Vec<T>>, _total: u64) -> bool
    where
        T: Sync + Hash + PartialEq + Eq + Debug + Send,
    {
        true
    }

    // this does not work under WASI.
    #[test]
    #[cfg(feature = "parallel")]
    fn check_crossbeam_scope() {
        crossbeam_utils::thread::scope(|scope| {
            let mut handles = vec![];
            for i in 0..2 {
                let h = scope.spawn(move |_| i * i);
                handles.push(h);
            }

            for (i, h) in handles.into_iter().enumerate() {
                assert_eq!(i * i, h.join().unwrap());
            }
        })
        .unwrap()
    }

    quickcheck! {
        fn check_int_slices(v: HashSet<u64>, lens: Vec<usize>) -> bool {

            let mut lens = lens;

            let items: Vec<u64> = v.iter().cloned().collect();
            if lens.is_empty() || lens.iter().all(|x| *x == 0) {
                lens.clear();
                lens.push(items.len())
            }

            let mut slices: Vec<Vec<u64>> = Vec::new();

            let mut total = 0_usize;
            for slc_len in lens {
                let end = std::cmp::min(items.len(), total.saturating_add(slc_len));
                let slc = Vec::from(&items[total..end]);
                slices.push(slc);
                total = end;

                if total == items.len() {
                    break;
                }
            }

            check_chunked_mphf(slices.clone(), total as u64) && check_chunked_mphf_parallel(slices, total as u64)
        }
    }

    quickcheck! {
        fn check_string(v: HashSet<Vec<String>>) -> bool {
            check_mphf(v)
        }
    }

    quickcheck! {
        fn check_u32(v: HashSet<u32>) -> bool {
            check_mphf(v)
        }
    }

    quickcheck! {
        fn check_isize(v: HashSet<isize>) -> bool {
            check_mphf(v)
        }
    }

    quickcheck! {
        fn check_u64(v: HashSet<u64>) -> bool {
            check_mphf(v)
        }
    }

    quickcheck! {
        fn check_vec_u8(v: HashSet<Vec<u8>>) -> bool {
            check_mphf(v)
        }
    }

    #[test]
    fn from_ints_serial() {
        let items = (0..1000000).map(|x| x * 2);
        assert!(check_mphf(HashSet::from_iter(items)));
    }
}
