#!/bin/bash
# Re-derives the loom build of boomphf from the registry copy of the version named in /repo/Cargo.lock
# and fails loudly if the committed copy (boomphf-loom/src) differs from "registry + the listed edits".
#   edit 1: src/lib.rs        std::sync::atomic  -> loom::sync::atomic
#   edit 2: src/bitvector.rs  std::sync::atomic  -> loom::sync::atomic ; insert_sync: get_mut() -> with_mut()
#   edit 3: src/lib.rs        the chunked *parallel iterator* builder (mod par_iter + Queue, needs crossbeam spin waits) is cut out
set -euo pipefail
HERE="$(cd "$(dirname "$0")" && pwd)"
VER="$(awk '/name = "boomphf"/{getline; gsub(/[^0-9.]/,"",$3); print $3; exit}' /repo/Cargo.lock)"
[ "$VER" = "0.6.0" ] || { echo "boomphf version in /repo/Cargo.lock is '$VER', the loom patch is for 0.6.0" >&2; exit 2; }
SRC="$(ls -d "$HOME"/.cargo/registry/src/*/boomphf-"$VER" | head -1)"
TMP="$(mktemp -d)"; trap 'rm -rf "$TMP"' EXIT
cp -r "$SRC/src" "$TMP/src"
python3 - "$TMP/src" <<'PY'
import sys, re
d = sys.argv[1]
p = d + '/lib.rs'; s = open(p).read()
n0 = s.count('use std::sync::atomic::{AtomicBool, AtomicU64, Ordering};')
s = s.replace('use std::sync::atomic::{AtomicBool, AtomicU64, Ordering};', 'use loom::sync::atomic::{AtomicBool, AtomicU64, Ordering};')
assert n0 == 1
# cut the chunked parallel-iterator builder: `mod par_iter;` and everything from `struct Queue` to the end of
# `from_chunked_iterator_parallel`'s impl block (identified by their cfg(feature = "parallel") markers)
s = s.replace('#[cfg(feature = "parallel")]\nmod par_iter;\n', '')
i = s.index('#[cfg(feature = "parallel")]\nstruct Queue<')
j = s.index('#[cfg(test)]')
s = s[:i] + s[j:]
# the items only used by the removed code
s = s.replace('#[cfg(feature = "parallel")]\nuse std::sync::{Arc, Mutex};\n', '')
open(p, 'w').write(s)
p = d + '/bitvector.rs'; s = open(p).read()
assert s.count('use std::sync::atomic::{AtomicU64, Ordering};') == 1
s = s.replace('use std::sync::atomic::{AtomicU64, Ordering};', 'use loom::sync::atomic::{AtomicU64, Ordering};')
old = '''        #[cfg(feature = "parallel")]
        let data = self.vector[word].get_mut();
        #[cfg(not(feature = "parallel"))]
        let data = &mut self.vector[word];

        let old_data = *data;
        *data |= mask;
        old_data & mask == 0'''
new = '''        #[cfg(feature = "parallel")]
        return self.vector[word].with_mut(|data| {
            let old_data = *data;
            *data |= mask;
            old_data & mask == 0
        });
        #[cfg(not(feature = "parallel"))]
        {
            let data = &mut self.vector[word];
            let old_data = *data;
            *data |= mask;
            old_data & mask == 0
        }'''
assert s.count(old) == 1
s = s.replace(old, new)
open(p, 'w').write(s)
import os
os.remove(d + '/par_iter.rs')
PY
if [ "${1:-}" = "--write" ]; then
  rm -rf "$HERE/boomphf-loom/src"; cp -r "$TMP/src" "$HERE/boomphf-loom/src"; echo "boomphf-loom/src rewritten"
fi
if ! diff -r "$TMP/src" "$HERE/boomphf-loom/src" >/dev/null; then
  echo "boomphf-loom/src differs from registry boomphf-$VER + the listed edits:" >&2
  diff -r "$TMP/src" "$HERE/boomphf-loom/src" | head -40 >&2
  exit 2
fi
echo "boomphf-loom conforms to registry boomphf-$VER + 3 listed edits ($(diff -r "$SRC/src" "$HERE/boomphf-loom/src" | grep -c '^[<>]') changed lines)"
