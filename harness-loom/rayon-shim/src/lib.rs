//! Minimal stand-in for the rayon API subset used by boomphf::Mphf::new_parallel,
//! executing each parallel region as loom threads (one per chunk), joined before returning.
use std::sync::atomic::{AtomicUsize, Ordering};
pub static WORKERS: AtomicUsize = AtomicUsize::new(2);
pub static REGIONS: AtomicUsize = AtomicUsize::new(0);

pub mod prelude { pub use crate::{IntoParallelIterator, ParIter, FilterMap}; }

pub struct ParIter<'a, T> { items: &'a [T] }
pub trait IntoParallelIterator { type Item; type Iter; fn into_par_iter(self) -> Self::Iter; }
impl<'a, T: Sync> IntoParallelIterator for &'a [T] { type Item = &'a T; type Iter = ParIter<'a, T>; fn into_par_iter(self) -> ParIter<'a, T> { ParIter { items: self } } }
impl<'a, T: Sync> IntoParallelIterator for &'a Vec<T> { type Item = &'a T; type Iter = ParIter<'a, T>; fn into_par_iter(self) -> ParIter<'a, T> { ParIter { items: &self[..] } } }

struct SendPtr<X>(*mut X);
unsafe impl<X> Send for SendPtr<X> {}
type Job = Box<dyn FnOnce() + Send + 'static>;
pub struct Pool { txs: Vec<loom::sync::mpsc::Sender<Option<Job>>>, done_rx: loom::sync::mpsc::Receiver<()>, handles: Vec<loom::thread::JoinHandle<()>> }
thread_local! { static POOL: std::cell::RefCell<Option<Pool>> = std::cell::RefCell::new(None); }
/// Start `extra` worker threads (the calling thread acts as worker 0). Call inside loom::model.
pub fn start(extra: usize) {
    let (done_tx, done_rx) = loom::sync::mpsc::channel::<()>();
    let mut txs = vec![]; let mut handles = vec![];
    for _ in 0..extra {
        let (tx, rx) = loom::sync::mpsc::channel::<Option<Job>>();
        let d = done_tx.clone();
        handles.push(loom::thread::spawn(move || { while let Ok(Some(job)) = rx.recv() { job(); d.send(()).unwrap(); } }));
        txs.push(tx);
    }
    POOL.with(|p| *p.borrow_mut() = Some(Pool { txs, done_rx, handles }));
}
pub fn shutdown() {
    let pool = POOL.with(|p| p.borrow_mut().take());
    if let Some(Pool { txs, done_rx, handles }) = pool { for t in &txs { t.send(None).unwrap(); } for h in handles { h.join().unwrap(); } drop(txs); drop(done_rx); }
}
fn run_chunks<'a, 'f, T: Sync + 'a, R: Send>(items: &'a [T], f: &'f (dyn Fn(&'a T) -> R + Sync + 'f)) -> Vec<R> {
    REGIONS.fetch_add(1, Ordering::Relaxed);
    let n = items.len();
    if n == 0 { return vec![]; }
    let pool = POOL.with(|p| p.borrow_mut().take());
    let w = 1 + pool.as_ref().map(|p| p.txs.len()).unwrap_or(0);
    let per = (n + w - 1) / w;
    let nchunks = (n + per - 1) / per;
    let mut slots: Vec<Vec<R>> = (0..nchunks).map(|_| Vec::new()).collect();
    let mut sent = 0;
    let mut mine: Option<Box<dyn FnOnce() + Send + '_>> = None;
    for (ci, c) in items.chunks(per).enumerate() {
        let slot = SendPtr(&mut slots[ci] as *mut Vec<R>);
        let job: Box<dyn FnOnce() + Send + '_> = Box::new(move || { let slot = slot; let out: Vec<R> = c.iter().map(|x| f(x)).collect(); unsafe { *slot.0 = out; } });
        if ci == 0 { mine = Some(job); } else {
            // SAFETY: we wait for the completion message of every dispatched job before returning.
            let job: Job = unsafe { std::mem::transmute(job) };
            pool.as_ref().unwrap().txs[ci - 1].send(Some(job)).unwrap(); sent += 1;
        }
    }
    (mine.take().unwrap())();
    for _ in 0..sent { pool.as_ref().unwrap().done_rx.recv().unwrap(); }
    POOL.with(|p| *p.borrow_mut() = pool);
    slots.into_iter().flatten().collect()
}

impl<'a, T: Sync + 'a> ParIter<'a, T> {
    pub fn for_each<F: Fn(&'a T) + Sync>(self, f: F) { run_chunks(self.items, &|x| f(x)); }
    pub fn filter_map<R, F: Fn(&'a T) -> Option<R> + Sync>(self, f: F) -> FilterMap<'a, T, F> { FilterMap { items: self.items, f } }
}
pub struct FilterMap<'a, T, F> { items: &'a [T], f: F }
impl<'a, T: Sync + 'a, R: Send, F: Fn(&'a T) -> Option<R> + Sync> FilterMap<'a, T, F> {
    pub fn collect<C: FromIterator<R>>(self) -> C { let f = &self.f; run_chunks(self.items, &|x| f(x)).into_iter().flatten().collect() }
}
