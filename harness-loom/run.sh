#!/bin/bash
# E3 half of C19: conformance of the patched dependency, build, loom exploration.
set -u
HERE="$(cd "$(dirname "$0")" && pwd)"
export VERIF_DIR="${VERIF_DIR:-$(dirname "$HERE")}"
export CARGO_NET_OFFLINE=true
"$HERE/derive_boomphf.sh" >/dev/null || { echo "MACHINERY: boomphf-loom does not conform to the registry copy + listed edits" >&2; exit 2; }
log="$(mktemp)"
if ! (cd "$HERE" && cargo build --release --offline -q >"$log" 2>&1); then
  echo "MACHINERY: loom harness does not build against /repo's working tree" >&2; grep -E "^error" -A 10 "$log" | head -40 >&2; rm -f "$log"; exit 2
fi
rm -f "$log"
if [ "${1:-}" = "--replay" ]; then
  f="$2"
  args=$(python3 -c "
import json,sys
c=json.load(open(sys.argv[1]))['case']
b=c['preemption_bound']
print(c['workers'], 'none' if b is None else b, 600, *c['nodes'])" "$f")
  out=$("$HERE/target/release/vc-loom" child $args 2>&1); echo "$out" | grep -E "LOOM-FAIL|summary" 
  if echo "$out" | grep -q "^LOOM-FAIL"; then echo "VIOLATION property=C19 replay=$f"; exit 1; fi
  echo "property held on this scenario within its bound"; exit 0
fi
exec "$HERE/target/release/vc-loom" "${1:-quick}"
