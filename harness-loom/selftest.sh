#!/bin/bash
# Engine self-test (not a registered check): seed a lost update into the loom build of the dependency
# (atomic fetch_or -> load;store in BitVector::insert) and confirm that the loom harness reports it.
set -u
HERE="$(cd "$(dirname "$0")" && pwd)"; cd "$HERE"
cp boomphf-loom/src/bitvector.rs /tmp/bv.selftest.bak
python3 - <<'PY'
p='boomphf-loom/src/bitvector.rs'; s=open(p).read()
old="        let prev = data.fetch_or(mask, Ordering::Relaxed);\n        prev & mask == 0\n    }\n\n    #[inline]\n    #[cfg(not(feature = \"parallel\"))]\n    pub fn insert("
assert s.count(old)==1
s=s.replace(old,"        let prev = data.load(Ordering::Relaxed);\n        data.store(prev | mask, Ordering::Relaxed);\n        prev & mask == 0\n    }\n\n    #[inline]\n    #[cfg(not(feature = \"parallel\"))]\n    pub fn insert(")
open(p,'w').write(s)
PY
cargo build --release --offline -q 2>/dev/null
out=$(VERIF_DIR=/tmp/vc-loom-selftest ./target/release/vc-loom child 1 2 60 AACG ACTG TTGA 2>/dev/null)
cp /tmp/bv.selftest.bak boomphf-loom/src/bitvector.rs; rm -f /tmp/bv.selftest.bak
cargo build --release --offline -q 2>/dev/null
./derive_boomphf.sh >/dev/null || exit 2
if echo "$out" | grep -q "^LOOM-FAIL"; then echo "selftest OK: seeded lost update reported: $(echo "$out" | grep '^LOOM-FAIL' | head -1)"; exit 0; fi
echo "selftest FAILED: seeded lost update not reported"; exit 1
