//! vc-loom: C19 (E3) - controlled-scheduler exploration (loom, DPOR, preemption-bounded) of the real
//! `BaseGraph::finish()`; boomphf is compiled against loom atomics (../boomphf-loom) and its rayon
//! parallel regions run on a fixed pool of loom threads (../rayon-shim).
//!
//!   vc-loom child <workers> <bound|none> <cap_s> <node sequences...>    one scenario, prints a JSON line
//!   vc-loom <quick|thorough>                                             runs the plan, merges into evidence/C19.json
use debruijn::dna_string::DnaString;
use debruijn::graph::*;
use debruijn::kmer::*;
use debruijn::*;
use serde_json::{json, Value};
use std::sync::atomic::{AtomicU64, Ordering};
use std::sync::Mutex;
use std::time::{Duration, Instant};

static EXECS: AtomicU64 = AtomicU64::new(0);
static FIRST: Mutex<Option<Vec<u32>>> = Mutex::new(None);

fn build(seqs: &[String]) -> BaseGraph<Kmer4, u8> {
    let mut g = BaseGraph::new(false);
    for (i, s) in seqs.iter().enumerate() {
        g.add(DnaString::from_dna_string(s).iter(), Exts::new(0xff), i as u8);
    }
    g
}

/// every query of the finished graph, rendered to one comparable vector
fn answers(g: &DebruijnGraph<Kmer4, u8>) -> Vec<u32> {
    let enc = |x: Option<(usize, Dir, bool)>| -> u32 {
        match x {
            None => u32::MAX,
            Some((i, d, f)) => (i as u32) << 2 | (matches!(d, Dir::Right) as u32) << 1 | f as u32,
        }
    };
    let mut out: Vec<u32> = Vec::with_capacity(600);
    for n in g.iter_nodes() {
        out.push(n.node_id as u32);
        out.push(n.len() as u32);
        out.extend(n.sequence().iter().map(|b| b as u32));
        out.push(n.exts().val as u32);
        for d in [Dir::Left, Dir::Right] {
            let e = n.edges(d);
            out.push(e.len() as u32);
            out.extend(e.iter().map(|x| enc(Some(*x))));
        }
    }
    // link lookups: every terminal k-mer, its reverse complement, all their one-base neighbours (present and absent
    // k-mers), plus a fixed spread of 16 further k-mers.  (All 256 k-mers would cost ~10^4 tracked atomic loads per
    // execution; the full 4^K sweep is done natively by the E1 half.)
    let mut qs: Vec<Kmer4> = Vec::new();
    for n in g.iter_nodes() {
        let s = n.sequence();
        for t in [s.first_kmer::<Kmer4>(), s.last_kmer::<Kmer4>()] {
            for k in [t, t.rc()] {
                qs.push(k);
                for b in 0..4u8 {
                    qs.push(k.extend_left(b));
                    qs.push(k.extend_right(b));
                }
            }
        }
    }
    for x in 0..16u64 {
        qs.push(Kmer4::from_u64(x * 17));
    }
    qs.sort();
    qs.dedup();
    for k in qs {
        out.push(k.to_u64() as u32);
        out.push(enc(g.find_link(k, Dir::Left)));
        out.push(enc(g.find_link(k, Dir::Right)));
    }
    out
}

fn child(args: &[String]) -> i32 {
    let workers: usize = args[0].parse().unwrap();
    let bound: Option<usize> = args[1].parse().ok();
    let cap = Duration::from_secs(args[2].parse().unwrap());
    let seqs: Vec<String> = args[3..].to_vec();
    let mut b = loom::model::Builder::new();
    let _ = Mutex::new(0);
    b.preemption_bound = bound;
    b.max_branches = 2_000_000;
    b.max_duration = Some(cap);
    if let Ok(f) = std::env::var("VC_LOOM_CHECKPOINT") {
        b.checkpoint_file = Some(f.into());
        b.checkpoint_interval = 1;
    }
    let t0 = Instant::now();
    let s2 = seqs.clone();
    let r = std::panic::catch_unwind(move || {
        b.check(move || {
            EXECS.fetch_add(1, Ordering::Relaxed);
            let want = answers(&build(&s2).finish_serial());
            let s3 = s2.clone();
            let got = match std::panic::catch_unwind(std::panic::AssertUnwindSafe(move || {
                rayon_shim::start(workers);
                let got = answers(&build(&s3).finish());
                rayon_shim::shutdown();
                got
            })) {
                Ok(g) => g,
                Err(e) => {
                    let msg = e.downcast_ref::<String>().cloned().or_else(|| e.downcast_ref::<&str>().map(|x| x.to_string())).unwrap_or_default();
                    if msg.contains("Loom execution state") || msg.contains("outside a Loom model") {
                        // threads that are not loom threads touched loom primitives: the code under test spawns threads through a
                        // primitive this engine does not intercept - an engine limitation, not a verdict
                        println!("LOOM-MACHINERY non-intercepted threads: {}", msg);
                    } else {
                        println!("LOOM-FAIL panic-under-schedule: finish() panicked in execution {}: {}", EXECS.load(Ordering::Relaxed), msg);
                    }
                    std::panic::resume_unwind(e)
                }
            };
            if want != got {
                println!("LOOM-FAIL parallel-differs-from-serial: finish() answers differ from finish_serial() in execution {}", EXECS.load(Ordering::Relaxed));
                panic!("parallel differs from serial");
            }
            let mut f = FIRST.lock().unwrap();
            match &*f {
                None => *f = Some(got),
                Some(first) => {
                    if *first != got {
                        println!("LOOM-FAIL not-schedule-independent: answers differ between two schedules (execution {})", EXECS.load(Ordering::Relaxed));
                        panic!("run-to-run difference");
                    }
                }
            }
        })
    });
    let execs = EXECS.load(Ordering::Relaxed);
    let regions = rayon_shim::REGIONS.load(std::sync::atomic::Ordering::Relaxed) as u64;
    let wall = t0.elapsed().as_secs_f64();
    let capped = t0.elapsed() >= cap;
    println!("{}", json!({"summary": true, "ok": r.is_ok(), "executions": execs, "parallel_regions": regions, "regions_per_execution": if execs > 0 { regions / execs } else { 0 }, "wall_s": wall, "cap_hit": capped, "workers": workers, "threads": workers + 1, "preemption_bound": bound, "nodes": seqs}));
    if r.is_err() {
        1
    } else {
        0
    }
}

struct Scn {
    name: &'static str,
    nodes: Vec<&'static str>,
    min_regions: u64,
}

fn scenarios() -> Vec<Scn> {
    vec![
        // end k-mers colliding at MPHF level 0 (=> collide bit path and a second level: >= 6 parallel regions)
        Scn { name: "3 single-k-mer nodes, colliding end k-mers", nodes: vec!["AACG", "ACTG", "TTGA"], min_regions: 6 },
        Scn { name: "4 nodes, colliding first k-mers", nodes: vec!["AACGT", "ACTGC", "TTGAA", "GGGCC"], min_regions: 6 },
        Scn { name: "6 nodes, collisions on both indexes", nodes: vec!["AACGA", "ACTGA", "TTGAC", "CAACG", "GACTG", "TTTGA"], min_regions: 6 },
        Scn { name: "2 nodes, no collision", nodes: vec!["AAAAC", "GGGTT"], min_regions: 4 },
        Scn { name: "single node", nodes: vec!["ACGTA"], min_regions: 4 },
        Scn { name: "empty graph", nodes: vec![], min_regions: 0 },
    ]
}

fn main() {
    let args: Vec<String> = std::env::args().collect();
    if args.len() >= 2 && args[1] == "child" {
        std::process::exit(child(&args[2..]));
    }
    let tier = args.get(1).map(|s| s.as_str()).unwrap_or("quick");
    let quick = tier == "quick";
    // (workers, preemption bound, cap seconds)
    let configs: Vec<(usize, Option<usize>, u64)> = if quick { vec![(1, Some(4), 300), (2, Some(1), 300)] } else { vec![(1, None, 900), (2, Some(3), 900), (3, Some(2), 900)] };
    let verif = std::env::var("VERIF_DIR").unwrap_or_else(|_| "/verif".into());
    let me = std::env::current_exe().unwrap();
    let t0 = Instant::now();
    let mut runs: Vec<Value> = vec![];
    let mut violations: Vec<(String, Value, String)> = vec![];
    let mut machinery: Vec<String> = vec![];
    let (mut execs, mut regions) = (0u64, 0u64);
    let scs = scenarios();
    let sel: Vec<&Scn> = if quick { scs.iter().filter(|s| s.name.starts_with('3') || s.name.starts_with('4') || s.name.starts_with('2') || s.name.starts_with("single") || s.name.starts_with("empty")).collect() } else { scs.iter().collect() };
    let mut jobs: Vec<(&Scn, usize, Option<usize>, u64)> = vec![];
    for sc in sel {
        for (w, bound, cap) in &configs {
            if sc.nodes.len() >= 6 && bound.is_none() {
                continue; // unbounded search is only attempted on the small lists
            }
            jobs.push((sc, *w, *bound, *cap));
        }
    }
    let _ = std::fs::create_dir_all(format!("{}/replays/C19", verif));
    // every scenario x configuration is one child process (loom failures may abort); run them side by side
    let outs: Vec<(std::process::Output, String)> = std::thread::scope(|s| {
        let hs: Vec<_> = jobs
            .iter()
            .map(|(sc, w, bound, cap)| {
                let me = me.clone();
                let ck = format!("{}/replays/C19/loom-checkpoint-{}-w{}.json", verif, sc.nodes.join("_"), w);
                s.spawn(move || {
                    let mut cmd = std::process::Command::new(&me);
                    cmd.arg("child").arg(w.to_string()).arg(bound.map(|b| b.to_string()).unwrap_or("none".into())).arg(cap.to_string());
                    for n in &sc.nodes {
                        cmd.arg(n);
                    }
                    cmd.env("VC_LOOM_CHECKPOINT", &ck);
                    cmd.stdout(std::process::Stdio::piped()).stderr(std::process::Stdio::piped());
                    let mut child = cmd.spawn().expect("spawn child");
                    // a schedule that hangs inside one execution (e.g. non-intercepted blocking primitives in the code under
                    // test) is not seen by loom's own duration cap: kill the child after cap + 60 s
                    let deadline = Instant::now() + Duration::from_secs(cap + 60);
                    loop {
                        match child.try_wait() {
                            Ok(Some(_)) => break,
                            Ok(None) if Instant::now() > deadline => {
                                let _ = child.kill();
                                break;
                            }
                            _ => std::thread::sleep(Duration::from_millis(50)),
                        }
                    }
                    (child.wait_with_output().expect("child output"), ck)
                })
            })
            .collect();
        hs.into_iter().map(|h| h.join().unwrap()).collect()
    });
    for ((sc, w, bound, cap), (out, ck)) in jobs.iter().zip(outs.into_iter()) {
        {
            let so = String::from_utf8_lossy(&out.stdout).to_string();
            let summary: Option<Value> = so.lines().filter_map(|l| serde_json::from_str::<Value>(l).ok()).filter(|v| v["summary"] == json!(true)).last();
            let fail_line = so.lines().find(|l| l.starts_with("LOOM-FAIL")).map(|l| l.to_string());
            let case = json!({"engine": "E3 loom", "scenario": sc.name, "nodes": sc.nodes, "workers": w, "preemption_bound": bound, "loom_checkpoint": ck});
            if let Some(f) = fail_line {
                let sig = f.split_whitespace().nth(1).unwrap_or("loom").trim_end_matches(':').to_string();
                violations.push((sig, case.clone(), f));
            } else if let Some(s) = &summary {
                let _ = std::fs::remove_file(&ck);
                execs += s["executions"].as_u64().unwrap_or(0);
                regions += s["parallel_regions"].as_u64().unwrap_or(0);
                if s["cap_hit"] == json!(true) {
                    machinery.push(format!("loom scenario '{}' W={} bound={:?}: wall-clock cap {} s hit after {} executions; bound NOT completed", sc.name, w, bound, cap, s["executions"]));
                }
                if s["regions_per_execution"].as_u64().unwrap_or(0) < sc.min_regions {
                    machinery.push(format!("loom scenario '{}': {} parallel regions per execution < expected {} (collision path not reached)", sc.name, s["regions_per_execution"], sc.min_regions));
                }
                if s["ok"] != json!(true) {
                    machinery.push(format!("loom scenario '{}' W={}: engine failed without a property verdict: {}", sc.name, w, String::from_utf8_lossy(&out.stderr).lines().rev().take(3).collect::<Vec<_>>().join(" | ")));
                }
            } else {
                machinery.push(format!("loom scenario '{}' W={}: child crashed without verdict (status {:?}): {}", sc.name, w, out.status.code(), String::from_utf8_lossy(&out.stderr).lines().rev().take(3).collect::<Vec<_>>().join(" | ")));
            }
            let mut rec = summary.unwrap_or(json!({}));
            rec["scenario"] = json!(sc.name);
            runs.push(rec);
        }
    }
    // merge into the evidence file written by the E1 half
    let ep = format!("{}/evidence/C19.json", verif);
    let mut ev: Value = std::fs::read_to_string(&ep).ok().and_then(|s| serde_json::from_str(&s).ok()).unwrap_or(json!({"property_id": "C19", "tier": tier, "seed": 0, "level": "model_checking", "coverage": {}, "wall_s": 0.0, "violations": 0}));
    let multi = runs.iter().filter(|r| r["executions"].as_u64().unwrap_or(0) > 1).count();
    {
        let cov = ev["coverage"].as_object_mut().unwrap();
        cov.insert("loom".into(), json!({"engine": "E3 loom 0.7 (DPOR, preemption-bounded) on the real BaseGraph::finish; boomphf compiled against loom atomics, rayon regions on a persistent pool of loom threads", "runs": runs, "executions_total": execs, "parallel_regions_total": regions, "scenarios_with_more_than_one_schedule": multi, "completed_bounds": if quick { "2 threads: preemption bound 4; 3 threads: bound 1" } else { "2 threads: unbounded (complete); 3 threads: bound 3; 4 threads: bound 2" }, "per_execution_oracle": "find_link (both directions) for every terminal k-mer, its reverse complement, all their one-base neighbours and 16 further k-mers; every node's sequence/extensions/edge lists and order; all == finish_serial() and identical across all executions"}));
        let st = cov.get("states").and_then(|x| x.as_u64()).unwrap_or(0) + execs;
        let tr = cov.get("transitions").and_then(|x| x.as_u64()).unwrap_or(0) + regions;
        cov.insert("states".into(), json!(st.max(1)));
        cov.insert("transitions".into(), json!(tr.max(1)));
        let mut samples = cov.get("samples").and_then(|x| x.as_array().cloned()).unwrap_or_default();
        samples.push(json!({"engine": "E3 loom", "nodes": ["AACG", "ACTG", "TTGA"], "threads": 2, "what": "every interleaving (within the preemption bound) of the per-chunk bodies of find_collisions / filter on the shared atomic bit vectors"}));
        cov.insert("samples".into(), json!(samples));
        if !machinery.is_empty() {
            let mut m = cov.get("machinery_errors").and_then(|x| x.as_array().cloned()).unwrap_or_default();
            m.extend(machinery.iter().map(|x| json!(x)));
            cov.insert("machinery_errors".into(), json!(m));
        }
    }
    let prev_wall = ev["wall_s"].as_f64().unwrap_or(0.0);
    ev["wall_s"] = json!(((prev_wall + t0.elapsed().as_secs_f64()) * 1000.0).round() / 1000.0);
    ev["violations"] = json!(ev["violations"].as_i64().unwrap_or(0) + violations.len() as i64);
    std::fs::write(&ep, serde_json::to_string_pretty(&ev).unwrap()).expect("write evidence");
    println!("[C19 {} E3 loom] executions={} parallel_regions={} scenarios_with_>1_schedule={} violations={} wall={:.1}s", tier, execs, regions, multi, violations.len(), t0.elapsed().as_secs_f64());
    for r in &runs {
        println!("    {:<48} W={} bound={} executions={} regions/exec={} {:.1}s{}", r["scenario"].as_str().unwrap_or(""), r["workers"], r["preemption_bound"], r["executions"], r["regions_per_execution"], r["wall_s"].as_f64().unwrap_or(0.0), if r["cap_hit"] == json!(true) { " CAP HIT" } else { "" });
    }
    if !violations.is_empty() {
        for (i, (sig, case, det)) in violations.iter().enumerate() {
            let p = format!("{}/replays/C19/loom-{}.json", verif, i);
            let _ = std::fs::write(&p, serde_json::to_string_pretty(&json!({"property": "C19", "engine": "E3 loom", "signature": sig, "case": case, "detail": det})).unwrap());
            println!("  violation [{}]: {}", sig, det);
            println!("VIOLATION property=C19 replay={}", p);
        }
        std::process::exit(1);
    }
    if !machinery.is_empty() {
        for m in &machinery {
            eprintln!("MACHINERY: {}", m);
        }
        std::process::exit(2);
    }
}
