//! E2: explicit-state search (stateright BFS) over operation histories.
//! The model's state carries the REAL object (or the history that rebuilds it) next to the
//! reference value; the invariant is evaluated on every reachable state.
use crate::report::{Report, Violation};
use serde_json::{json, Value};
use stateright::{Checker, Model};
use std::fmt::Debug;
use std::hash::Hash;

pub struct E2Result {
    pub generated: u64,
    pub unique: u64,
    pub max_depth: u64,
    /// the state-count cap was reached: the search is NOT complete
    pub capped: bool,
    /// property name -> action sequence (Debug-rendered) leading to a violating state
    pub discoveries: Vec<(String, Vec<String>, String)>,
}

/// Run a bounded/closing BFS. `depth` counts the init state as depth 1 (stateright convention).
pub fn explore<M>(model: M, depth: usize) -> E2Result
where
    M: Model + Send + Sync + 'static,
    M::State: Debug + Hash + Send + Sync + Clone + PartialEq + 'static,
    M::Action: Debug + Send + Sync + Clone + PartialEq + 'static,
{
    explore_opt(model, Some(depth))
}

/// `depth` = None: run until the reachable state space is closed (must be finite)
pub fn explore_opt<M>(model: M, depth: Option<usize>) -> E2Result
where
    M: Model + Send + Sync + 'static,
    M::State: Debug + Hash + Send + Sync + Clone + PartialEq + 'static,
    M::Action: Debug + Send + Sync + Clone + PartialEq + 'static,
{
    let threads = std::thread::available_parallelism().map(|n| n.get()).unwrap_or(4);
    let b = model.checker().threads(threads);
    let b = match depth {
        Some(d) => b.target_max_depth(d),
        None => b,
    };
    // memory guard: stop (and say so) rather than exhaust RAM; ~150 bytes per stored state
    let cap: usize = std::env::var("VERIF_E2_STATE_CAP").ok().and_then(|x| x.parse().ok()).unwrap_or(120_000_000);
    let c = b.target_state_count(cap).spawn_bfs().join();
    let mut discoveries = vec![];
    for (name, path) in c.discoveries() {
        let last = format!("{:?}", path.last_state());
        let acts: Vec<String> = path.into_actions().iter().map(|a| format!("{:?}", a)).collect();
        discoveries.push((name.to_string(), acts, last));
    }
    let capped = c.state_count() >= cap && discoveries.is_empty();
    E2Result { generated: c.state_count() as u64, unique: c.unique_state_count() as u64, max_depth: c.max_depth() as u64, capped, discoveries }
}

/// fold a search result into the report; `case` describes the model instance (replayable)
pub fn record(rep: &mut Report, part: &str, case: Value, r: &E2Result, sig_of: &dyn Fn(&str) -> String) {
    rep.states += r.unique;
    rep.transitions += r.generated;
    rep.evaluations += r.unique;
    rep.count(&format!("{}:unique_states", part), r.unique);
    rep.count(&format!("{}:generated_states", part), r.generated);
    if r.capped {
        rep.exhaustive = false;
        rep.machinery_errors.push(format!("{}: state-count cap reached after {} generated states; the bound was NOT completed", part, r.generated));
    }
    rep.parts.push(json!({"part": part, "engine": "E2 stateright BFS", "unique_states": r.unique, "generated_states": r.generated, "max_depth": r.max_depth, "model": case}));
    for (name, acts, last) in &r.discoveries {
        rep.violation(Violation {
            signature: sig_of(name),
            case: json!({"model": case, "property": name, "actions": acts}),
            detail: format!("invariant '{}' violated after actions {:?}; state: {}", name, acts, last.chars().take(500).collect::<String>()),
        });
    }
}
