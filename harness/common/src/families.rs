//! Finite read-set families, indexable so that a sweep can address case i directly.
use crate::seq::*;

#[derive(Clone, Debug)]
pub enum Seg {
    /// one read of the given length, threshold 1
    Single(usize),
    /// ordered pair of reads (lengths l1 >= l2), threshold 1
    Pair(usize, usize),
    /// read s and its prefix s[..len-1], threshold 2
    Trunc(usize),
    /// read s twice, threshold 2
    Dup(usize),
    /// read s and its reverse complement, threshold 2
    WithRc(usize),
    /// read s and its reverse complement, threshold 1
    WithRc1(usize),
    /// three reads
    Triple(usize, usize, usize),
    /// explicit catalogue entries
    Fixed(Vec<(Vec<S>, usize)>),
    /// every read set of `inner` with each base replaced by an `m`-letter codeword (`Code`)
    Lift(Box<Seg>, Code),
}

/// A substitution code base -> word of `m` letters.  The symmetric codes satisfy
/// word(complement b) = reverse complement of word(b), so lifting commutes with reverse
/// complement: palindromes, hairpins and both-strand observations of the small-K read set
/// reappear at K' = m * K, and the de Bruijn graph of the lifted reads is the small graph with
/// its steps subdivided by the out-of-frame k-mers.
#[derive(Clone, Debug)]
pub struct Code {
    pub words: [S; 4],
}
impl Code {
    /// variant 0, 1: two different strand-symmetric codes; variant 2: an unrelated word per base
    pub fn new(m: usize, variant: u64) -> Code {
        let mut g = Lcg(0xC0DE_0000_0000_0000 ^ ((m as u64) << 8) ^ variant);
        loop {
            let (a, c) = (g.dna(m), g.dna(m));
            let (t, gg) = if variant == 2 { (g.dna(m), g.dna(m)) } else { (rc(&a), rc(&c)) };
            let words = [a, c, gg, t];
            // the four words must be pairwise different (for m = 1 that forces the identity-like codes)
            let distinct = (0..4).all(|i| (0..i).all(|j| words[i] != words[j]));
            if distinct {
                return Code { words };
            }
        }
    }
    pub fn apply(&self, s: &[u8]) -> S {
        let mut out = Vec::with_capacity(s.len() * self.words[0].len());
        for b in s {
            out.extend_from_slice(&self.words[*b as usize]);
        }
        out
    }
}
impl Seg {
    pub fn count(&self) -> u64 {
        match self {
            Seg::Single(l) | Seg::Trunc(l) | Seg::Dup(l) | Seg::WithRc(l) | Seg::WithRc1(l) => count_strings(*l),
            Seg::Pair(a, b) => count_strings(a + b),
            Seg::Triple(a, b, c) => count_strings(a + b + c),
            Seg::Fixed(v) => v.len() as u64,
            Seg::Lift(inner, _) => inner.count(),
        }
    }
    /// (reads, count threshold)
    pub fn get(&self, i: u64) -> (Vec<S>, usize) {
        match self {
            Seg::Single(l) => (vec![nth_string(*l, i)], 1),
            Seg::Trunc(l) => {
                let s = nth_string(*l, i);
                let t = s[..l - 1].to_vec();
                (vec![s, t], 2)
            }
            Seg::Dup(l) => {
                let s = nth_string(*l, i);
                (vec![s.clone(), s], 2)
            }
            Seg::WithRc(l) => {
                let s = nth_string(*l, i);
                let r = rc(&s);
                (vec![s, r], 2)
            }
            Seg::WithRc1(l) => {
                let s = nth_string(*l, i);
                let r = rc(&s);
                (vec![s, r], 1)
            }
            Seg::Pair(a, b) => {
                let s = nth_string(a + b, i);
                (vec![s[..*a].to_vec(), s[*a..].to_vec()], 1)
            }
            Seg::Triple(a, b, c) => {
                let s = nth_string(a + b + c, i);
                (vec![s[..*a].to_vec(), s[*a..a + b].to_vec(), s[a + b..].to_vec()], 1)
            }
            Seg::Fixed(v) => v[i as usize].clone(),
            Seg::Lift(inner, code) => {
                let (reads, thr) = inner.get(i);
                (reads.iter().map(|r| code.apply(r)).collect(), thr)
            }
        }
    }
}

#[derive(Clone, Debug, Default)]
pub struct Space {
    pub segs: Vec<Seg>,
}
impl Space {
    pub fn count(&self) -> u64 {
        self.segs.iter().map(|s| s.count()).sum()
    }
    pub fn get(&self, mut i: u64) -> (Vec<S>, usize) {
        for s in &self.segs {
            let c = s.count();
            if i < c {
                return s.get(i);
            }
            i -= c;
        }
        panic!("index out of range")
    }
    pub fn singles(k: usize, lmax: usize) -> Space {
        Space { segs: (k..=lmax).map(Seg::Single).collect() }
    }
    pub fn pairs(k: usize, lmax: usize) -> Space {
        let mut segs = vec![];
        for a in k..=lmax {
            for b in k..=a {
                segs.push(Seg::Pair(a, b));
            }
        }
        Space { segs }
    }
    pub fn thresholds(k: usize, lmax: usize) -> Space {
        let mut segs = vec![];
        for l in k + 1..=lmax {
            segs.push(Seg::Trunc(l));
        }
        for l in k..=lmax {
            segs.push(Seg::Dup(l));
            segs.push(Seg::WithRc(l));
        }
        Space { segs }
    }
    pub fn with_rc(k: usize, lmax: usize) -> Space {
        Space { segs: (k..=lmax).map(Seg::WithRc1).collect() }
    }
    pub fn triples(k: usize, lmax: usize) -> Space {
        let mut segs = vec![];
        for a in k..=lmax {
            for b in k..=a {
                for c in k..=b {
                    segs.push(Seg::Triple(a, b, c));
                }
            }
        }
        Space { segs }
    }
    /// every read set of `self`, lifted through `code`
    pub fn lift(self, code: &Code) -> Space {
        Space { segs: self.segs.into_iter().map(|s| Seg::Lift(Box::new(s), code.clone())).collect() }
    }
    pub fn plus(mut self, o: Space) -> Space {
        self.segs.extend(o.segs);
        self
    }
}

/// Structure-parameterised reads for an arbitrary K (used for the K >= 8 types, where the
/// 4^K universe cannot be enumerated): homopolymers, tandem repeats, self-reverse-complement
/// strings, hairpins, cycles, forks, bubbles, a read with its reverse complement, LCG reads.
pub fn catalogue(k: usize) -> Seg {
    let mut v: Vec<(Vec<S>, usize)> = vec![];
    let mut g = Lcg(0x9E3779B97F4A7C15 ^ (k as u64));
    // homopolymers
    for b in 0..4u8 {
        for extra in [0usize, 1, 3] {
            v.push((vec![vec![b; k + extra]], 1));
        }
    }
    // tandem repeats of every period up to min(k-1, 7) and a few longer
    let mut periods: Vec<usize> = (2..k.min(8)).collect();
    for p in [k / 2, k - 1, k, k + 1] {
        if p >= 2 && !periods.contains(&p) {
            periods.push(p);
        }
    }
    for p in periods {
        let unit = g.dna(p);
        let s: S = (0..2 * k + p + 1).map(|i| unit[i % p]).collect();
        v.push((vec![s], 1));
    }
    // w . rc(w): even-length self reverse complement, with flanks
    for wl in [k / 2, k / 2 + 1, k, k + 2] {
        let w = g.dna(wl);
        let mut s = w.clone();
        s.extend(rc(&w));
        v.push((vec![s.clone()], 1));
        let mut t = g.dna(3);
        t.extend(s);
        t.extend(g.dna(2));
        v.push((vec![t], 1));
    }
    // hairpin x . Q . rc(x)
    for xl in [k / 2, k - 1, k] {
        let x = g.dna(xl);
        for q in 0..4u8 {
            let mut s = x.clone();
            s.push(q);
            s.extend(rc(&x));
            v.push((vec![s], 1));
        }
    }
    // cycles s . s[..k]
    for cl in [1usize, 2, 3, k - 1, k, k + 1, 2 * k] {
        let c = g.dna(cl);
        let s: S = (0..cl + k).map(|i| c[i % cl]).collect();
        v.push((vec![s.clone()], 1));
        let s2: S = (0..2 * cl + k + 1).map(|i| c[i % cl]).collect();
        v.push((vec![s2], 1));
    }
    // forks: shared (k-1)-overlap, branch on either strand; bubbles
    for _ in 0..3 {
        let stem = g.dna(k + 3);
        let mut a = stem.clone();
        a.extend(g.dna(k));
        let mut b = stem.clone();
        b.extend(g.dna(k));
        v.push((vec![a.clone(), b.clone()], 1));
        v.push((vec![a.clone(), rc(&b)], 1));
        let mut a2 = g.dna(k);
        a2.extend(stem.clone());
        let mut b2 = g.dna(k);
        b2.extend(stem.clone());
        v.push((vec![a2.clone(), b2], 1));
        // bubble: two paths differing in one middle base
        let left = g.dna(k + 1);
        let right = g.dna(k + 1);
        let mut p1 = left.clone();
        p1.push(0);
        p1.extend(right.clone());
        let mut p2 = left.clone();
        p2.push(3);
        p2.extend(right.clone());
        v.push((vec![p1.clone(), p2.clone()], 1));
        v.push((vec![p1.clone(), rc(&p2)], 1));
        v.push((vec![p1.clone(), p2.clone(), p1.clone()], 2));
    }
    // read + rc, thresholds
    for len in [k, k + 1, 2 * k + 1] {
        let s = g.dna(len);
        v.push((vec![s.clone(), rc(&s)], 1));
        v.push((vec![s.clone(), rc(&s)], 2));
        v.push((vec![s.clone(), s[..len - 1].to_vec()], 2));
    }
    // LCG reads (larger graphs)
    for len in [60usize, 130, 260, 400] {
        if len > k {
            v.push((vec![g.dna(len)], 1));
            v.push((vec![g.dna(len), g.dna(len / 2), g.dna(len / 3 + k)], 1));
        }
    }
    // low-complexity (2-letter) reads: many repeats / branches
    for len in [3 * k, 5 * k + 7] {
        let s: S = (0..len).map(|_| if g.base() < 2 { 0 } else { 3 }).collect();
        v.push((vec![s], 1));
    }
    // reads shorter than K alone and mixed
    v.push((vec![g.dna(k - 1)], 1));
    v.push((vec![g.dna(k - 1), g.dna(k + 2)], 1));
    Seg::Fixed(v)
}


/// For a wide K: the small K0 in {4, 5, 6} and the code length m with which the exhaustive K0
/// families are lifted to K (m * K0 == K where K has such a divisor; otherwise K0 = 4 and
/// m = ceil(K / 4), which still gives repeat-rich reads of length >= K but not the mirrored topology).
pub fn lift_shape(k: usize) -> (usize, usize) {
    for k0 in [4usize, 5, 6] {
        if k % k0 == 0 {
            return (k0, k / k0);
        }
    }
    (4, (k + 3) / 4)
}

/// The lifted families for one wide K: all single reads of K0..K0+d bases, the threshold families
/// and (deep) ordered pairs of K0-long reads, through two strand-symmetric codes and one unrelated code.
pub fn lifted(k: usize, deep: bool) -> Space {
    let (k0, m) = lift_shape(k);
    let mut sp = Space::default();
    for variant in 0..3u64 {
        let code = Code::new(m, variant);
        // quick: about 6 000 read sets for the first code, a few hundred for the others
        let d = match (deep, variant, k0) {
            (true, 0, 4) => 4,
            (true, 0, _) => 3,
            (true, _, _) => 2,
            (false, 0, 4) => 2,
            (false, 0, _) => 1,
            (false, _, _) => 0,
        };
        let mut inner = Space::singles(k0, k0 + d);
        if variant == 0 {
            inner = inner.plus(Space::thresholds(k0, k0 + if deep { 2 } else { 0 }));
            if deep && k0 == 4 {
                inner = inner.plus(Space { segs: vec![Seg::Pair(4, 4)] });
            }
        }
        sp = sp.plus(inner.lift(&code));
    }
    sp
}
