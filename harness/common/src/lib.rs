//! Shared pieces of the verification harness: string-level reference models, exhaustive
//! enumerators, the sweep runner, evidence / replay / known-findings plumbing.
//! Deliberately does NOT depend on the crate under test.
pub mod seq;
pub mod refmodel;
pub mod report;
pub mod sweep;
pub mod families;
pub mod e2;
