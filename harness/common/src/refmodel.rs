//! String-level reference models: k-mer counting table, bidirected de Bruijn graph,
//! maximal unbranched paths (unitigs), minimizers.  No bit tricks, no code shared with the
//! crate under test.
use crate::seq::*;
use std::collections::{BTreeMap, BTreeSet};

#[derive(Clone, Copy, PartialEq, Eq, PartialOrd, Ord, Debug, Hash)]
pub enum Side {
    L,
    R,
}
impl Side {
    pub fn flip(self) -> Side {
        match self {
            Side::L => Side::R,
            Side::R => Side::L,
        }
    }
}

pub type Bases = [bool; 4];
pub fn comp_bases(b: &Bases) -> Bases {
    [b[3], b[2], b[1], b[0]]
}
pub fn or_bases(a: &Bases, b: &Bases) -> Bases {
    [a[0] || b[0], a[1] || b[1], a[2] || b[2], a[3] || b[3]]
}
pub fn n_bases(b: &Bases) -> usize {
    b.iter().filter(|x| **x).count()
}
/// decode the crate's extension byte: low nibble = left bases, high nibble = right bases
pub fn decode_exts(val: u8) -> (Bases, Bases) {
    let mut l = [false; 4];
    let mut r = [false; 4];
    for i in 0..4 {
        l[i] = val >> i & 1 == 1;
        r[i] = val >> (4 + i) & 1 == 1;
    }
    (l, r)
}
pub fn encode_exts(l: &Bases, r: &Bases) -> u8 {
    let mut v = 0u8;
    for i in 0..4 {
        if l[i] {
            v |= 1 << i;
        }
        if r[i] {
            v |= 1 << (4 + i);
        }
    }
    v
}

/// One input sequence: bases, the caller-supplied boundary extensions, a label.
#[derive(Clone, Debug, PartialEq, Eq)]
pub struct Read {
    pub seq: S,
    pub bl: Bases,
    pub br: Bases,
    pub label: u64,
}
impl Read {
    pub fn plain(seq: S, label: u64) -> Read {
        Read { seq, bl: [false; 4], br: [false; 4], label }
    }
}

/// one observation of a k-mer in the input, as the summarizer should see it
#[derive(Clone, Debug, PartialEq, Eq)]
pub struct Obs {
    pub read: usize,
    pub pos: usize,
    pub flipped: bool,
    /// extension bases in the orientation of the key
    pub l: Bases,
    pub r: Bases,
    pub label: u64,
}

#[derive(Clone, Debug, Default, PartialEq, Eq)]
pub struct Entry {
    pub l: Bases,
    pub r: Bases,
    pub obs: Vec<Obs>,
}
impl Entry {
    pub fn count(&self) -> usize {
        self.obs.len()
    }
    pub fn labels(&self) -> Vec<u64> {
        let mut v: Vec<u64> = self.obs.iter().map(|o| o.label).collect();
        v.sort();
        v.dedup();
        v
    }
}

/// The k-mer table of a read set (reference for filter_kmers) and, at the same time, the
/// vertex/extension description of the bidirected de Bruijn graph.
#[derive(Clone, Debug)]
pub struct Table {
    pub k: usize,
    pub stranded: bool,
    pub e: BTreeMap<S, Entry>,
}

impl Table {
    pub fn from_reads(reads: &[Read], k: usize, stranded: bool) -> Table {
        let mut e: BTreeMap<S, Entry> = BTreeMap::new();
        for (ri, rd) in reads.iter().enumerate() {
            let s = &rd.seq;
            if s.len() < k {
                continue;
            }
            for i in 0..=s.len() - k {
                let w = &s[i..i + k];
                let mut a = [false; 4];
                let mut b = [false; 4];
                if i > 0 {
                    a[s[i - 1] as usize] = true;
                } else {
                    a = rd.bl;
                }
                if i + k < s.len() {
                    b[s[i + k] as usize] = true;
                } else {
                    b = rd.br;
                }
                let (key, fl) = canon(w, stranded);
                // the crate flips palindromes; the model keeps them as read and compares merged
                let (l, r) = if fl { (comp_bases(&b), comp_bases(&a)) } else { (a, b) };
                let ent = e.entry(key).or_default();
                ent.l = or_bases(&ent.l, &l);
                ent.r = or_bases(&ent.r, &r);
                ent.obs.push(Obs { read: ri, pos: i, flipped: fl, l, r, label: rd.label });
            }
        }
        Table { k, stranded, e }
    }

    pub fn is_pal_key(&self, key: &[u8]) -> bool {
        !self.stranded && is_pal(key)
    }

    /// right-side bases of a key with the two sides of a palindrome merged
    pub fn merged_r(&self, key: &[u8]) -> Bases {
        let en = &self.e[key];
        if self.is_pal_key(key) {
            or_bases(&en.r, &comp_bases(&en.l))
        } else {
            en.r
        }
    }

    /// bases on `side` of `key` (palindromes: merged, reported for either side in that side's terms)
    pub fn side_bases(&self, key: &[u8], side: Side) -> Bases {
        let en = &self.e[key];
        if self.is_pal_key(key) {
            let m = or_bases(&en.r, &comp_bases(&en.l));
            match side {
                Side::R => m,
                Side::L => comp_bases(&m),
            }
        } else {
            match side {
                Side::R => en.r,
                Side::L => en.l,
            }
        }
    }

    /// does the ORIENTED k-mer string `w` (either strand) have extension `base` on `side`?
    pub fn has_ext_oriented(&self, w: &[u8], side: Side, base: u8) -> bool {
        let (key, fl) = canon(w, self.stranded);
        if !self.e.contains_key(&key) {
            return false;
        }
        let (s, b) = if fl { (side.flip(), 3 - base) } else { (side, base) };
        self.side_bases(&key, s)[b as usize]
    }

    /// neighbour reached from `key` through `base` on `side`: (canonical key, facing side)
    pub fn neighbor(&self, key: &[u8], side: Side, base: u8) -> (S, Side) {
        let k = self.k;
        let y: S = match side {
            Side::R => {
                let mut y = key[1..].to_vec();
                y.push(base);
                y
            }
            Side::L => {
                let mut y = vec![base];
                y.extend_from_slice(&key[..k - 1]);
                y
            }
        };
        let (c, fl) = canon(&y, self.stranded);
        let facing = if fl { side } else { side.flip() };
        (c, facing)
    }

    fn norm_end(&self, key: S, side: Side) -> (S, Side) {
        if self.is_pal_key(&key) {
            (key, Side::R)
        } else {
            (key, side)
        }
    }

    /// all links whose two ends are present (per `present`), as normalised unordered end pairs
    pub fn links(&self, present: &dyn Fn(&[u8]) -> bool) -> BTreeSet<((S, Side), (S, Side))> {
        let mut out = BTreeSet::new();
        for key in self.e.keys() {
            if !present(key) {
                continue;
            }
            for side in [Side::L, Side::R] {
                let bs = self.side_bases(key, side);
                for b in 0..4u8 {
                    if bs[b as usize] {
                        let (nk, ns) = self.neighbor(key, side, b);
                        if self.e.contains_key(&nk) && present(&nk) {
                            let e1 = self.norm_end(key.clone(), side);
                            let e2 = self.norm_end(nk, ns);
                            out.insert(if e1 <= e2 { (e1, e2) } else { (e2, e1) });
                        }
                    }
                }
            }
        }
        out
    }

    /// number of extension bases on that end (palindromes merged)
    pub fn deg(&self, key: &[u8], side: Side) -> usize {
        n_bases(&self.side_bases(key, side))
    }

    /// canonical (K+1)-mers spelled by the extension bits whose target is present
    pub fn kp1_set(&self, present: &dyn Fn(&[u8]) -> bool) -> BTreeSet<S> {
        let mut out = BTreeSet::new();
        for key in self.e.keys() {
            if !present(key) {
                continue;
            }
            for side in [Side::L, Side::R] {
                let bs = self.side_bases(key, side);
                for b in 0..4u8 {
                    if bs[b as usize] {
                        let (nk, _) = self.neighbor(key, side, b);
                        if self.e.contains_key(&nk) && present(&nk) {
                            let w: S = match side {
                                Side::R => {
                                    let mut w = key.clone();
                                    w.push(b);
                                    w
                                }
                                Side::L => {
                                    let mut w = vec![b];
                                    w.extend_from_slice(key);
                                    w
                                }
                            };
                            out.insert(canon(&w, self.stranded).0);
                        }
                    }
                }
            }
        }
        out
    }

    pub fn retain(&mut self, keep: &dyn Fn(&S, &Entry) -> bool) {
        let keys: Vec<S> = self.e.iter().filter(|(k, v)| !keep(k, v)).map(|(k, _)| k.clone()).collect();
        for k in keys {
            self.e.remove(&k);
        }
    }

    /// remove every extension whose target k-mer is absent (reference for remove_censored_exts);
    /// `also_keep` = targets that are not in the table but must be kept (other shards)
    pub fn prune(&mut self, also_keep: &dyn Fn(&[u8]) -> bool) {
        let snapshot = self.clone();
        for (key, en) in self.e.iter_mut() {
            for side in [Side::L, Side::R] {
                for b in 0..4u8 {
                    let set = match side {
                        Side::L => en.l[b as usize],
                        Side::R => en.r[b as usize],
                    };
                    if set {
                        let (nk, _) = snapshot.neighbor(key, side, b);
                        if !(snapshot.e.contains_key(&nk) || also_keep(&nk)) {
                            match side {
                                Side::L => en.l[b as usize] = false,
                                Side::R => en.r[b as usize] = false,
                            }
                        }
                    }
                }
            }
        }
    }

    /// Maximal unbranched paths: components of the "joinable link" relation.
    /// A link is joinable iff its two ends are distinct non-palindromic k-mers, it is the only
    /// extension on both facing sides, and `join(a, b)` accepts.
    pub fn unitigs(&self, join: &dyn Fn(&S, &S) -> bool) -> BTreeSet<BTreeSet<S>> {
        let keys: Vec<&S> = self.e.keys().collect();
        let idx: BTreeMap<&S, usize> = keys.iter().enumerate().map(|(i, k)| (*k, i)).collect();
        let mut uf: Vec<usize> = (0..keys.len()).collect();
        fn find(uf: &mut Vec<usize>, mut x: usize) -> usize {
            while uf[x] != x {
                uf[x] = uf[uf[x]];
                x = uf[x];
            }
            x
        }
        for (a, b) in self.links(&|_| true) {
            if a.0 == b.0 {
                continue;
            }
            if self.is_pal_key(&a.0) || self.is_pal_key(&b.0) {
                continue;
            }
            if self.deg(&a.0, a.1) != 1 || self.deg(&b.0, b.1) != 1 {
                continue;
            }
            if !join(&a.0, &b.0) {
                continue;
            }
            let x = find(&mut uf, idx[&a.0]);
            let y = find(&mut uf, idx[&b.0]);
            uf[x] = y;
        }
        let mut comps: BTreeMap<usize, BTreeSet<S>> = BTreeMap::new();
        for (i, k) in keys.iter().enumerate() {
            let r = find(&mut uf, i);
            comps.entry(r).or_default().insert((*k).clone());
        }
        comps.into_values().collect()
    }

    /// is every extension pointing at a present k-mer (precondition of the unitig property)?
    pub fn is_closed(&self) -> bool {
        for key in self.e.keys() {
            for side in [Side::L, Side::R] {
                let bs = self.side_bases(key, side);
                for b in 0..4u8 {
                    if bs[b as usize] && !self.e.contains_key(&self.neighbor(key, side, b).0) {
                        return false;
                    }
                }
            }
        }
        true
    }
}

/// canonical (K+1)-mers observed in the reads whose two k-mers are both present
pub fn kp1_from_reads(reads: &[Read], k: usize, stranded: bool, present: &dyn Fn(&[u8]) -> bool) -> BTreeSet<S> {
    let mut out = BTreeSet::new();
    for rd in reads {
        let s = &rd.seq;
        if s.len() <= k {
            continue;
        }
        for i in 0..s.len() - k {
            let a = canon(&s[i..i + k], stranded).0;
            let b = canon(&s[i + 1..i + 1 + k], stranded).0;
            if present(&a) && present(&b) {
                out.insert(canon(&s[i..i + k + 1], stranded).0);
            }
        }
    }
    out
}

/// brute-force minimizer position (leftmost... no tie rule: returns the minimum score only)
pub fn min_score(seq: &[u8], start: usize, end: usize, p: usize, score: &dyn Fn(&[u8]) -> usize) -> usize {
    (start..=end - p).map(|q| score(&seq[q..q + p])).min().unwrap()
}

#[cfg(test)]
mod t {
    use super::*;
    fn rd(s: &str) -> Read {
        Read::plain(from_ascii(s), 0)
    }
    #[test]
    fn table_and_unitigs() {
        // ACGTT at K=4 unstranded: ACGT (pal), CGTT->AACG
        let t = Table::from_reads(&[rd("ACGTT")], 4, false);
        assert_eq!(t.e.len(), 2);
        let u = t.unitigs(&|_, _| true);
        assert_eq!(u.len(), 2); // palindrome never joined
        let t = Table::from_reads(&[rd("AAACC")], 4, true);
        assert_eq!(t.unitigs(&|_, _| true).len(), 1);
        assert!(t.is_closed());
        let l = t.links(&|_| true);
        assert_eq!(l.len(), 1);
        // homopolymer self loop
        let t = Table::from_reads(&[rd("AAAAA")], 4, true);
        assert_eq!(t.e.len(), 1);
        assert_eq!(t.links(&|_| true).len(), 1);
        assert_eq!(t.kp1_set(&|_| true).len(), 1);
        // strand merge
        let t = Table::from_reads(&[rd("AAACC"), rd("GGTTT")], 4, false);
        assert_eq!(t.e.len(), 2);
        assert_eq!(t.e[&from_ascii("AAAC")].count(), 2);
        assert_eq!(encode_exts(&t.e[&from_ascii("AAAC")].l, &t.e[&from_ascii("AAAC")].r), 0b0010_0000);
    }
}
