//! Evidence files, violation/replay artefacts, known findings, exit codes.
//!
//! exit 0: property held on everything explored (known findings are printed, not counted)
//! exit 1: new violation, with a line `VIOLATION property=<id> replay=<path>`
//! exit 2: machinery failure (engine crash, floor not met, cap hit) - never a verdict
use serde_json::{json, Map, Value};
use std::collections::BTreeMap;
use std::path::PathBuf;
use std::time::Instant;

pub fn verif_dir() -> PathBuf {
    PathBuf::from(std::env::var("VERIF_DIR").unwrap_or_else(|_| "/verif".to_string()))
}
/// VERIF_SMOKE=1: reduced plan (see vglue::case::run_part); floors are skipped
pub fn smoke() -> bool {
    std::env::var("VERIF_SMOKE").map(|v| v == "1").unwrap_or(false)
}
pub fn seed() -> i64 {
    std::env::var("VERIF_SEED").ok().and_then(|s| s.parse().ok()).unwrap_or(0)
}

#[derive(Clone, Debug)]
pub struct Violation {
    /// stable description of the failing shape (used for known-finding matching)
    pub signature: String,
    /// the concrete case, replayable with `check --replay`
    pub case: Value,
    pub detail: String,
}

pub struct KnownFindings {
    entries: Vec<Value>,
}
impl KnownFindings {
    pub fn load() -> KnownFindings {
        let p = verif_dir().join("known_findings.json");
        let entries = std::fs::read_to_string(&p)
            .ok()
            .and_then(|s| serde_json::from_str::<Value>(&s).ok())
            .and_then(|v| v.get("findings").and_then(|f| f.as_array().cloned()))
            .unwrap_or_default();
        KnownFindings { entries }
    }
    /// Some(description) if this violation is a listed, still-open finding
    pub fn matches(&self, prop: &str, v: &Violation) -> Option<String> {
        for e in &self.entries {
            if e["status"] != "known" || e["property"] != prop {
                continue;
            }
            if e["signature"].as_str() != Some(&v.signature) {
                continue;
            }
            if let Some(c) = e.get("case") {
                if !c.is_null() && *c != v.case {
                    continue;
                }
            }
            return Some(e["what"].as_str().unwrap_or("").to_string());
        }
        None
    }
}

/// Collects what one run of one property's check covered.
pub struct Report {
    pub prop: String,
    pub tier: String,
    pub engine: String,
    pub start: Instant,
    pub states: u64,
    pub transitions: u64,
    pub evaluations: u64,
    pub nontrivial: u64,
    pub exhaustive: bool,
    pub rule: String,
    pub parts: Vec<Value>,
    pub samples: Vec<Value>,
    pub counters: BTreeMap<String, u64>,
    pub assumptions: Vec<String>,
    pub violations: Vec<Violation>,
    pub machinery_errors: Vec<String>,
    pub extra: Map<String, Value>,
}

impl Report {
    pub fn new(prop: &str, tier: &str, engine: &str) -> Report {
        Report {
            prop: prop.to_string(),
            tier: tier.to_string(),
            engine: engine.to_string(),
            start: Instant::now(),
            states: 0,
            transitions: 0,
            evaluations: 0,
            nontrivial: 0,
            exhaustive: true,
            rule: String::new(),
            parts: vec![],
            samples: vec![],
            counters: BTreeMap::new(),
            assumptions: vec![],
            violations: vec![],
            machinery_errors: vec![],
            extra: Map::new(),
        }
    }
    pub fn count(&mut self, name: &str, n: u64) {
        *self.counters.entry(name.to_string()).or_insert(0) += n;
    }
    pub fn floor(&mut self, name: &str, min: u64) {
        if smoke() {
            return;
        }
        let got = self.counters.get(name).copied().unwrap_or(0);
        if got < min {
            self.machinery_errors.push(format!("anti-vacuity floor not met: {} = {} < {}", name, got, min));
        }
    }
    pub fn sample(&mut self, v: Value) {
        if self.samples.len() < 12 {
            self.samples.push(v);
        }
    }
    pub fn violation(&mut self, v: Violation) {
        if self.violations.len() < 200 {
            self.violations.push(v);
        }
    }

    /// Write evidence, print verdict lines, return the process exit code.
    pub fn finish(mut self) -> i32 {
        let known = KnownFindings::load();
        let mut fresh: Vec<Violation> = vec![];
        let mut known_lines: BTreeMap<String, usize> = BTreeMap::new();
        let total_viol = self.violations.len();
        for v in std::mem::take(&mut self.violations) {
            match known.matches(&self.prop, &v) {
                Some(what) => *known_lines.entry(format!("{} [{}]", what, v.signature)).or_insert(0) += 1,
                None => fresh.push(v),
            }
        }
        for (w, n) in &known_lines {
            println!("KNOWN-FINDING: property={} {} ({} matching cases)", self.prop, w, n);
        }
        let wall = self.start.elapsed().as_secs_f64();
        let vd = verif_dir();
        let mut replay_paths = vec![];
        // smallest counterexample first (cases are enumerated simplest-first; keep order)
        for (i, v) in fresh.iter().take(5).enumerate() {
            let dir = vd.join("replays").join(&self.prop);
            let _ = std::fs::create_dir_all(&dir);
            let h = {
                use std::hash::{Hash, Hasher};
                let mut s = std::collections::hash_map::DefaultHasher::new();
                v.case.to_string().hash(&mut s);
                v.signature.hash(&mut s);
                s.finish()
            };
            let p = dir.join(format!("{:016x}.json", h));
            let body = json!({"property": self.prop, "engine": self.engine, "signature": v.signature,
                              "case": v.case, "detail": v.detail, "tier": self.tier, "rank": i});
            let _ = std::fs::write(&p, serde_json::to_string_pretty(&body).unwrap());
            replay_paths.push(p);
        }
        let mut cov = Map::new();
        cov.insert("states".into(), json!(self.states.max(if self.evaluations > 0 { 1 } else { 0 })));
        cov.insert("transitions".into(), json!(self.transitions));
        cov.insert("traces_validated_against_impl".into(), json!(self.evaluations));
        cov.insert("evaluations".into(), json!(self.evaluations));
        cov.insert("distinct_nontrivial".into(), json!(self.nontrivial));
        cov.insert("rule".into(), json!(self.rule));
        cov.insert("exhaustive".into(), json!(self.exhaustive));
        cov.insert("samples".into(), json!(self.samples));
        cov.insert("parts".into(), json!(self.parts));
        cov.insert("counters".into(), json!(self.counters));
        cov.insert("engine".into(), json!(self.engine));
        for (k, v) in self.extra.iter() {
            cov.insert(k.clone(), v.clone());
        }
        if !self.machinery_errors.is_empty() {
            cov.insert("machinery_errors".into(), json!(self.machinery_errors));
        }
        if !known_lines.is_empty() {
            cov.insert("known_findings_seen".into(), json!(known_lines));
        }
        let ev = json!({
            "property_id": self.prop,
            "tier": self.tier,
            "seed": seed(),
            "level": "model_checking",
            "coverage": Value::Object(cov),
            "assumptions": self.assumptions,
            "wall_s": (wall * 1000.0).round() / 1000.0,
            "violations": fresh.len(),
        });
        let edir = vd.join("evidence");
        let _ = std::fs::create_dir_all(&edir);
        // VERIF_EVIDENCE_NAME lets a secondary run (e.g. the debug-assertions build of C09) write next to the main file
        let ename = std::env::var("VERIF_EVIDENCE_NAME").unwrap_or_else(|_| self.prop.clone());
        let ep = edir.join(format!("{}.json", ename));
        let tmp = edir.join(format!(".{}.json.tmp", self.prop));
        if std::fs::write(&tmp, serde_json::to_string_pretty(&ev).unwrap()).and_then(|_| std::fs::rename(&tmp, &ep)).is_err() {
            eprintln!("MACHINERY: cannot write evidence file {:?}", ep);
            return 2;
        }
        println!(
            "[{} {} {}] states={} transitions={} evaluations={} nontrivial={} exhaustive={} violations={} (of which known {}) wall={:.1}s",
            self.prop, self.tier, self.engine, self.states, self.transitions, self.evaluations, self.nontrivial, self.exhaustive,
            total_viol, total_viol - fresh.len(), wall
        );
        for (k, v) in &self.counters {
            println!("    {:<40} {}", k, v);
        }
        if !fresh.is_empty() {
            for (v, p) in fresh.iter().zip(replay_paths.iter()) {
                println!("  violation [{}]: {}", v.signature, v.detail.chars().take(600).collect::<String>());
                println!("    case: {}", v.case.to_string().chars().take(600).collect::<String>());
                println!("VIOLATION property={} replay={}", self.prop, p.display());
            }
            if fresh.len() > 5 {
                println!("  ... {} further violating cases not written out", fresh.len() - 5);
            }
            return 1;
        }
        if !self.machinery_errors.is_empty() {
            for m in &self.machinery_errors {
                eprintln!("MACHINERY: {}", m);
            }
            return 2;
        }
        0
    }
}
