//! Plain-vector DNA helpers (bases are 0..4 = A,C,G,T).
pub type S = Vec<u8>;

pub fn rc(s: &[u8]) -> S {
    s.iter().rev().map(|b| 3 - b).collect()
}
pub fn is_pal(s: &[u8]) -> bool {
    let n = s.len();
    (0..n).all(|i| s[i] == 3 - s[n - 1 - i])
}
/// canonical representative and whether the input had to be flipped to obtain it
pub fn canon(s: &[u8], stranded: bool) -> (S, bool) {
    if stranded {
        return (s.to_vec(), false);
    }
    let r = rc(s);
    if s <= &r[..] {
        (s.to_vec(), false)
    } else {
        (r, true)
    }
}
pub fn ascii(s: &[u8]) -> String {
    s.iter().map(|b| b"ACGT"[*b as usize] as char).collect()
}
pub fn from_ascii(s: &str) -> S {
    s.bytes()
        .map(|c| match c {
            b'A' | b'a' => 0,
            b'C' | b'c' => 1,
            b'G' | b'g' => 2,
            b'T' | b't' => 3,
            _ => panic!("bad base {}", c as char),
        })
        .collect()
}
/// the `idx`-th string of length `len` in lexicographic order
pub fn nth_string(len: usize, idx: u64) -> S {
    (0..len).map(|i| ((idx >> (2 * (len - 1 - i))) & 3) as u8).collect()
}
pub fn count_strings(len: usize) -> u64 {
    1u64 << (2 * len)
}
pub fn all_strings(len: usize) -> impl Iterator<Item = S> {
    (0..count_strings(len)).map(move |x| nth_string(len, x))
}
pub fn windows(s: &[u8], k: usize) -> Vec<S> {
    if s.len() < k {
        return vec![];
    }
    (0..=s.len() - k).map(|i| s[i..i + k].to_vec()).collect()
}
/// rank of a string (big-endian base 4), only for len <= 32
pub fn rank(s: &[u8]) -> u64 {
    s.iter().fold(0u64, |a, b| a * 4 + *b as u64)
}

/// deterministic pseudo-random bases (fixed LCG, no global state)
pub struct Lcg(pub u64);
impl Lcg {
    pub fn next_u32(&mut self) -> u32 {
        self.0 = self.0.wrapping_mul(6364136223846793005).wrapping_add(1442695040888963407);
        (self.0 >> 33) as u32
    }
    pub fn base(&mut self) -> u8 {
        (self.next_u32() >> 7 & 3) as u8
    }
    pub fn dna(&mut self, n: usize) -> S {
        (0..n).map(|_| self.base()).collect()
    }
    pub fn below(&mut self, n: usize) -> usize {
        (self.next_u32() as usize) % n
    }
    pub fn perm(&mut self, n: usize) -> Vec<usize> {
        let mut v: Vec<usize> = (0..n).collect();
        for i in (1..n).rev() {
            let j = self.below(i + 1);
            v.swap(i, j);
        }
        v
    }
}

/// linearised de Bruijn sequence of order `n` over 4 symbols (every n-mer exactly once)
pub fn debruijn_seq(n: usize) -> S {
    fn db(t: usize, p: usize, n: usize, a: &mut Vec<usize>, seq: &mut Vec<u8>) {
        if t > n {
            if n % p == 0 {
                for i in 1..=p {
                    seq.push(a[i] as u8);
                }
            }
        } else {
            a[t] = a[t - p];
            db(t + 1, p, n, a, seq);
            for j in a[t - p] + 1..4 {
                a[t] = j;
                db(t + 1, t, n, a, seq);
            }
        }
    }
    let mut a = vec![0usize; 4 * n + 1];
    let mut seq = vec![];
    db(1, 1, n, &mut a, &mut seq);
    let pre: Vec<u8> = seq[..n - 1].to_vec();
    seq.extend(pre);
    seq
}

#[cfg(test)]
mod t {
    use super::*;
    #[test]
    fn basics() {
        assert_eq!(rc(&[0, 1, 2, 3]), vec![0, 1, 2, 3]);
        assert!(is_pal(&[0, 1, 2, 3]));
        assert!(!is_pal(&[0, 1, 2]));
        assert_eq!(canon(&[3, 3], false), (vec![0, 0], true));
        let d = debruijn_seq(4);
        assert_eq!(d.len(), 259);
        let mut w = windows(&d, 4);
        w.sort();
        w.dedup();
        assert_eq!(w.len(), 256);
        assert_eq!(nth_string(3, 27), vec![1, 2, 3]);
        assert_eq!(rank(&[1, 2, 3]), 27);
    }
}
