//! Parallel exhaustive sweep over an indexed case space, executed inside the rayon pool so that
//! the crate's own nested parallel calls run inline.
use crate::report::{Report, Violation};
use rayon::prelude::*;
use serde_json::{json, Value};
use std::panic::{catch_unwind, AssertUnwindSafe};
use std::sync::atomic::{AtomicBool, AtomicU64, Ordering};
use std::time::{Duration, Instant};

#[derive(Default, Clone, Debug)]
pub struct Outcome {
    /// (signature, detail) of the first disagreement with the reference, if any
    pub err: Option<(String, String)>,
    /// bit i set = case belongs to non-trivial class i
    pub flags: u64,
    /// number of stage applications / operations executed and checked for this case
    pub transitions: u64,
}
impl Outcome {
    pub fn fail(&mut self, sig: &str, detail: String) {
        if self.err.is_none() {
            FIRST_FAILURE.with(|c| {
                let mut c = c.borrow_mut();
                if c.is_none() {
                    *c = Some((sig.to_string(), detail.clone()));
                }
            });
            self.err = Some((sig.to_string(), detail));
        }
    }
    pub fn ok(&self) -> bool {
        self.err.is_none()
    }
}

thread_local! {
    /// first disagreement recorded by the case that is running on this thread: if a later oracle of the same
    /// case trips over the subject's wrong output and panics, the recorded disagreement is the verdict
    static FIRST_FAILURE: std::cell::RefCell<Option<(String, String)>> = std::cell::RefCell::new(None);
}
thread_local! {
    /// source location of the most recent panic on this thread (recorded by the hook of `silence_panics`)
    static LAST_PANIC_AT: std::cell::RefCell<String> = std::cell::RefCell::new(String::new());
}

/// Panics are caught per case; the hook prints nothing but remembers WHERE the panic was raised, so
/// that a panic inside the harness's own sources is reported as a machinery failure and never as a verdict.
pub fn silence_panics() {
    std::panic::set_hook(Box::new(|info| {
        let at = info.location().map(|l| format!("{}:{}", l.file(), l.line())).unwrap_or_default();
        LAST_PANIC_AT.with(|c| *c.borrow_mut() = at.clone());
        if let Ok(mut g) = LAST_PANIC_ANY.lock() {
            *g = at;
        }
    }));
}
/// location of the most recent panic on ANY thread (for panics that cross a rayon join before they are caught)
static LAST_PANIC_ANY: std::sync::Mutex<String> = std::sync::Mutex::new(String::new());

/// A panic caught outside the per-case guard (special runs, extra engines): verdict if raised in the
/// crate under test or in std, machinery failure if raised in the harness's own sources.
pub fn report_outer_panic(rep: &mut Report, what: &str, e: Box<dyn std::any::Any + Send>) {
    let at = LAST_PANIC_ANY.lock().map(|g| g.clone()).unwrap_or_default();
    let msg = panic_msg(e);
    if is_harness_location(&at) {
        rep.machinery_errors.push(format!("the harness itself panicked in {} at {}: {}", what, at, msg));
    } else {
        rep.violation(Violation { signature: "panic".into(), case: json!({"special": what}), detail: format!("subject panicked in {} at {}: {}", what, at, msg) });
    }
}
pub fn last_panic_at() -> String {
    LAST_PANIC_AT.with(|c| c.borrow().clone())
}
/// does a panic location lie in the verification harness (and not in the crate under test or in std)?
pub fn is_harness_location(at: &str) -> bool {
    ["common/src/", "glue/src/", "vc-graph/src/", "vc-filter/src/", "vc-msp/src/", "vc-kmer/src/", "vc-seq/src/", "vc-loom/src/", "rayon-shim/src/"].iter().any(|p| at.starts_with(p) || at.contains(&format!("/harness/{}", p)) || at.contains(&format!("/harness-loom/{}", p)))
}
/// signature used for a panic raised by the harness itself; `run_sweep` turns it into a machinery error
pub const HARNESS_PANIC: &str = "harness-panic";

fn panic_msg(e: Box<dyn std::any::Any + Send>) -> String {
    if let Some(s) = e.downcast_ref::<&str>() {
        s.to_string()
    } else if let Some(s) = e.downcast_ref::<String>() {
        s.clone()
    } else {
        "non-string panic payload".to_string()
    }
}

/// run `f` catching panics; a panic of the subject is a verdict (totality), reported as violation
pub fn guarded<F: FnOnce() -> Outcome>(f: F) -> Outcome {
    FIRST_FAILURE.with(|c| *c.borrow_mut() = None);
    match catch_unwind(AssertUnwindSafe(f)) {
        Ok(o) => o,
        Err(e) => {
            let mut o = Outcome::default();
            o.transitions = 1;
            let at = last_panic_at();
            if let Some((sig, det)) = FIRST_FAILURE.with(|c| c.borrow_mut().take()) {
                o.err = Some((sig, det));
            } else if is_harness_location(&at) {
                o.fail(HARNESS_PANIC, format!("the harness itself panicked at {}: {}", at, panic_msg(e)));
            } else {
                o.fail("panic", format!("subject panicked at {}: {}", at, panic_msg(e)));
            }
            o
        }
    }
}

struct Agg {
    evals: u64,
    transitions: u64,
    nontrivial: u64,
    flag_counts: [u64; 64],
    viol: Vec<(u64, String, String)>,
    nviol: u64,
    first_nontrivial: Option<u64>,
    skipped: u64,
}
impl Default for Agg {
    fn default() -> Agg {
        Agg { evals: 0, transitions: 0, nontrivial: 0, flag_counts: [0; 64], viol: vec![], nviol: 0, first_nontrivial: None, skipped: 0 }
    }
}
impl Agg {
    fn merge(mut self, o: Agg) -> Agg {
        self.evals += o.evals;
        self.transitions += o.transitions;
        self.nontrivial += o.nontrivial;
        self.skipped += o.skipped;
        self.nviol += o.nviol;
        for i in 0..64 {
            self.flag_counts[i] += o.flag_counts[i];
        }
        self.viol.extend(o.viol);
        if self.viol.len() > 64 {
            self.viol.sort_by_key(|v| v.0);
            self.viol.truncate(32);
        }
        self.first_nontrivial = match (self.first_nontrivial, o.first_nontrivial) {
            (Some(a), Some(b)) => Some(a.min(b)),
            (a, b) => a.or(b),
        };
        self
    }
}

pub struct SweepCfg<'a> {
    pub name: &'a str,
    pub flag_names: &'a [&'a str],
    pub cap: Duration,
    /// which flag bits make a case count as non-trivial
    pub nontrivial_mask: u64,
}

/// Enumerate cases 0..n, run each on the real code, aggregate into the report.
/// `describe(i)` gives the replayable JSON description of case i.
pub fn run_sweep<R, D>(cfg: &SweepCfg, n: u64, run: R, describe: D, report: &mut Report)
where
    R: Fn(u64) -> Outcome + Sync,
    D: Fn(u64) -> Value,
{
    let t0 = Instant::now();
    let stop = AtomicBool::new(false);
    let done = AtomicU64::new(0);
    let cap = cfg.cap;
    let mask = cfg.nontrivial_mask;
    let agg = (0..n)
        .into_par_iter()
        .fold(Agg::default, |mut a, i| {
            if stop.load(Ordering::Relaxed) {
                a.skipped += 1;
                return a;
            }
            let o = guarded(|| run(i));
            a.evals += 1;
            a.transitions += o.transitions.max(1);
            if o.flags & mask != 0 {
                a.nontrivial += 1;
                a.first_nontrivial = Some(a.first_nontrivial.map_or(i, |x| x.min(i)));
            }
            if o.flags != 0 {
                for b in 0..64 {
                    if o.flags >> b & 1 == 1 {
                        a.flag_counts[b] += 1;
                    }
                }
            }
            if let Some((sig, det)) = o.err {
                a.nviol += 1;
                if a.viol.len() < 64 {
                    a.viol.push((i, sig, det));
                }
            }
            let d = done.fetch_add(1, Ordering::Relaxed);
            if d % 4096 == 0 && t0.elapsed() > cap {
                stop.store(true, Ordering::Relaxed);
            }
            a
        })
        .reduce(Agg::default, Agg::merge);
    let mut viol = agg.viol;
    viol.sort_by_key(|v| v.0);
    report.states += agg.evals;
    report.evaluations += agg.evals;
    report.transitions += agg.transitions;
    report.nontrivial += agg.nontrivial;
    for (b, nm) in cfg.flag_names.iter().enumerate() {
        report.count(&format!("{}:{}", cfg.name, nm), agg.flag_counts[b]);
    }
    report.count(&format!("{}:cases", cfg.name), agg.evals);
    if agg.nviol > 0 {
        report.count(&format!("{}:violating_cases", cfg.name), agg.nviol);
    }
    report.parts.push(json!({"part": cfg.name, "cases": agg.evals, "of": n, "nontrivial": agg.nontrivial,
        "stage_applications": agg.transitions, "complete": agg.skipped == 0, "wall_s": t0.elapsed().as_secs_f64()}));
    if agg.skipped > 0 {
        report.exhaustive = false;
        report.machinery_errors.push(format!(
            "part {}: wall-clock cap {:?} hit after {} of {} cases; not exhaustive",
            cfg.name, cap, agg.evals, n
        ));
    }
    if n > 0 {
        let mut picks = vec![0u64, n / 2, n - 1];
        if let Some(f) = agg.first_nontrivial {
            picks.push(f);
        }
        picks.dedup();
        for i in picks.into_iter().take(2 + report.samples.is_empty() as usize) {
            report.sample(json!({"part": cfg.name, "index": i, "case": describe(i)}));
        }
    }
    for (i, sig, det) in viol.into_iter().take(20) {
        if sig == HARNESS_PANIC {
            report.machinery_errors.push(format!("part {} case {}: {}", cfg.name, describe(i), det));
            continue;
        }
        report.violation(Violation { signature: sig, case: describe(i), detail: det });
    }
}

/// mixed-radix index helper: decode `idx` into digits with the given radices (first = most significant)
pub fn unrank(mut idx: u64, radices: &[u64]) -> Vec<u64> {
    let mut out = vec![0; radices.len()];
    for (i, r) in radices.iter().enumerate().rev() {
        out[i] = idx % r;
        idx /= r;
    }
    out
}
