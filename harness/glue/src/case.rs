//! Case description (replayable JSON) and the part/sweep plumbing.
use serde::{Deserialize, Serialize};
use std::collections::BTreeMap;
use std::time::Duration;
use vcommon::families::Space;
use vcommon::report::Report;
use vcommon::seq::*;
use vcommon::sweep::*;

#[derive(Serialize, Deserialize, Clone, Debug)]
pub struct GCase {
    pub prop: String,
    pub k: usize,
    pub stranded: bool,
    pub thr: usize,
    pub reads: Vec<String>,
    #[serde(default)]
    pub cfg: BTreeMap<String, i64>,
}
impl GCase {
    pub fn reads_s(&self) -> Vec<S> {
        self.reads.iter().map(|r| from_ascii(r)).collect()
    }
    pub fn get(&self, key: &str) -> i64 {
        self.cfg.get(key).copied().unwrap_or(0)
    }
}

/// One exhaustive part of a check: a read-set space crossed with strandedness and config dims.
pub struct Part {
    pub name: String,
    pub prop: String,
    pub k: usize,
    pub space: Space,
    pub stranded: Vec<bool>,
    pub dims: Vec<(String, Vec<i64>)>,
    pub cap: Duration,
}
impl Part {
    pub fn new(prop: &str, name: &str, k: usize, space: Space) -> Part {
        Part { name: format!("{}@K{}", name, k), prop: prop.to_string(), k, space, stranded: vec![false, true], dims: vec![], cap: Duration::from_secs(3600) }
    }
    pub fn dim(mut self, name: &str, vals: &[i64]) -> Part {
        self.dims.push((name.to_string(), vals.to_vec()));
        self
    }
    pub fn strands(mut self, s: &[bool]) -> Part {
        self.stranded = s.to_vec();
        self
    }
    pub fn dim_range(self, name: &str, n: i64) -> Part {
        let v: Vec<i64> = (0..n).collect();
        self.dim(name, &v)
    }
    pub fn cap_s(mut self, s: u64) -> Part {
        self.cap = Duration::from_secs(s);
        self
    }
    pub fn count(&self) -> u64 {
        self.space.count() * self.stranded.len() as u64 * self.dims.iter().map(|d| d.1.len() as u64).product::<u64>()
    }
    /// simplest-first: read sets are the most significant digit, so short reads come first
    pub fn case(&self, i: u64) -> GCase {
        let mut rad = vec![self.space.count(), self.stranded.len() as u64];
        rad.extend(self.dims.iter().map(|d| d.1.len() as u64));
        let d = unrank(i, &rad);
        let (reads, thr) = self.space.get(d[0]);
        let mut cfg = BTreeMap::new();
        for (j, (n, vals)) in self.dims.iter().enumerate() {
            cfg.insert(n.clone(), vals[d[2 + j] as usize]);
        }
        GCase { prop: self.prop.clone(), k: self.k, stranded: self.stranded[d[1] as usize], thr, reads: reads.iter().map(|r| ascii(r)).collect(), cfg }
    }
}

pub fn run_part(p: &Part, names: &[&str], nontrivial_mask: u64, run_case: &(dyn Fn(&GCase) -> Outcome + Sync), rep: &mut Report) {
    // smoke plan (the quick tier's second run, on the build with overflow checks and debug assertions): only
    // the structure catalogue of every wide k-mer type; anti-vacuity floors are not applied to it
    if vcommon::report::smoke() && !p.name.starts_with("catalogue") {
        return;
    }
    let cfg = SweepCfg { name: &p.name, flag_names: names, cap: p.cap, nontrivial_mask };
    run_sweep(&cfg, p.count(), |i| run_case(&p.case(i)), |i| serde_json::to_value(p.case(i)).unwrap(), rep);
}

pub fn replay_file(path: &str, run_case: &(dyn Fn(&GCase) -> Outcome + Sync), replay_model: &dyn Fn(&str, &serde_json::Value) -> Option<Vec<String>>) -> i32 {
    let txt = match std::fs::read_to_string(path) {
        Ok(t) => t,
        Err(e) => {
            eprintln!("cannot read {}: {}", path, e);
            return 2;
        }
    };
    let v: serde_json::Value = serde_json::from_str(&txt).expect("replay file is not JSON");
    let cv = if v.get("case").is_some() { v["case"].clone() } else { v.clone() };
    if cv.get("model").is_some() || cv.get("native").is_some() || cv.get("value_kind").is_some() || cv.get("special").is_some() {
        // E2 / native / value cases: re-run that one model instance twice
        let prop = v["property"].as_str().unwrap_or("").to_string();
        let a = replay_model(&prop, &cv);
        let b = replay_model(&prop, &cv);
        if a != b {
            eprintln!("MACHINERY: replay is not deterministic");
            return 2;
        }
        return match a {
            None => {
                eprintln!("MACHINERY: this kind of case cannot be replayed individually; re-run the check");
                2
            }
            Some(v) if v.is_empty() => {
                println!("property held on this model instance (both runs)");
                0
            }
            Some(v) => {
                for d in &v {
                    println!("violation: {}", d);
                }
                println!("VIOLATION property={} replay={}", prop, path);
                1
            }
        };
    }
    let case: GCase = serde_json::from_value(cv).expect("replay file holds no graph case");
    let a = guarded(|| run_case(&case));
    let b = guarded(|| run_case(&case));
    if a.err != b.err {
        eprintln!("MACHINERY: replay is not deterministic: {:?} vs {:?}", a.err, b.err);
        return 2;
    }
    println!("replay of {} case K={} stranded={} thr={} reads={:?} cfg={:?}", case.prop, case.k, case.stranded, case.thr, case.reads, case.cfg);
    match a.err {
        None => {
            println!("property held on this case (both runs)");
            0
        }
        Some((sig, det)) => {
            println!("violation [{}]: {}", sig, det);
            println!("VIOLATION property={} replay={}", case.prop, path);
            println!("--- paste-able regression test ---\n#[test]\nfn replay_{}() {{\n    // K={} stranded={} threshold={} cfg={:?}\n    let reads = {:?};\n    // expected: {}\n}}", sig.replace('-', "_"), case.k, case.stranded, case.thr, case.cfg, case.reads, det.replace('\n', " "));
            1
        }
    }
}
