//! Glue between the crate under test and the string-level reference world:
//! conversions, extraction of a finished graph into plain strings ("view") through the
//! crate's public query API, and the graph oracles that compare a view with the reference.
use debruijn::graph::DebruijnGraph;
use debruijn::{Dir, Exts, Kmer, Mer, Vmer};
use std::collections::{BTreeMap, BTreeSet};
use std::fmt::Debug;
use vcommon::refmodel::*;
use vcommon::seq::*;

pub mod oracles;
pub mod case;

pub fn kstr<K: Kmer>(k: &K) -> S {
    (0..K::k()).map(|i| k.get(i)).collect()
}
pub fn mk<K: Kmer>(s: &[u8]) -> K {
    K::from_bytes(s)
}
pub fn side_of(d: Dir) -> Side {
    match d {
        Dir::Left => Side::L,
        Dir::Right => Side::R,
    }
}
pub fn dir_of(s: Side) -> Dir {
    match s {
        Side::L => Dir::Left,
        Side::R => Dir::Right,
    }
}
pub fn exts_of(l: &Bases, r: &Bases) -> Exts {
    Exts::new(encode_exts(l, r))
}

/// reads -> the (sequence, boundary extensions, label) tuples filter_kmers wants
pub fn to_seqs(reads: &[Read]) -> Vec<(debruijn::DnaBytes, Exts, u64)> {
    reads.iter().map(|r| (debruijn::DnaBytes(r.seq.clone()), exts_of(&r.bl, &r.br), r.label)).collect()
}
pub fn plain_reads(reads: &[S]) -> Vec<Read> {
    reads.iter().enumerate().map(|(i, s)| Read::plain(s.clone(), i as u64)).collect()
}

/// One edge as reported by the crate: (target node, arrival side, flip flag)
pub type EdgeV = (usize, Side, bool);

#[derive(Clone, Debug)]
pub struct NodeV<D> {
    pub seq: S,
    /// the node's k-mers as the k-mer iterator of its sequence slice yields them
    pub kmer_iter: Vec<S>,
    pub l: Bases,
    pub r: Bases,
    pub data: D,
    pub ledges: Vec<EdgeV>,
    pub redges: Vec<EdgeV>,
    /// what the convenience accessors `Node::l_edges()` / `Node::r_edges()` report
    pub ledges_acc: Vec<EdgeV>,
    pub redges_acc: Vec<EdgeV>,
}
impl<D> NodeV<D> {
    pub fn edges(&self, s: Side) -> &Vec<EdgeV> {
        match s {
            Side::L => &self.ledges,
            Side::R => &self.redges,
        }
    }
    pub fn bases(&self, s: Side) -> &Bases {
        match s {
            Side::L => &self.l,
            Side::R => &self.r,
        }
    }
}

/// A finished graph read out through the public API into plain data.
#[derive(Clone, Debug)]
pub struct GraphV<D> {
    pub k: usize,
    pub stranded: bool,
    pub nodes: Vec<NodeV<D>>,
}

pub fn view<K: Kmer, D: Debug + Clone>(g: &DebruijnGraph<K, D>) -> GraphV<D> {
    let mut nodes = Vec::with_capacity(g.len());
    for n in g.iter_nodes() {
        let seq: S = n.sequence().iter().collect();
        let (l, r) = decode_exts(n.exts().val);
        let cv = |v: debruijn::graph::Node<K, D>, d: Dir| -> Vec<EdgeV> {
            v.edges(d).into_iter().map(|(t, s, f)| (t, side_of(s), f)).collect()
        };
        let kmer_iter: Vec<S> = n.sequence().iter_kmers::<K>().map(|x| kstr(&x)).collect();
        nodes.push(NodeV {
            seq,
            kmer_iter,
            l,
            r,
            data: n.data().clone(),
            ledges: cv(g.get_node(n.node_id), Dir::Left),
            redges: cv(g.get_node(n.node_id), Dir::Right),
            ledges_acc: n.l_edges().into_iter().map(|(t, s, f)| (t, side_of(s), f)).collect(),
            redges_acc: n.r_edges().into_iter().map(|(t, s, f)| (t, side_of(s), f)).collect(),
        });
    }
    GraphV { k: K::k(), stranded: g.base.stranded, nodes }
}

impl<D: Clone> GraphV<D> {
    pub fn first(&self, i: usize) -> &[u8] {
        &self.nodes[i].seq[..self.k]
    }
    pub fn last(&self, i: usize) -> &[u8] {
        let s = &self.nodes[i].seq;
        &s[s.len() - self.k..]
    }
    pub fn term(&self, i: usize, side: Side) -> &[u8] {
        match side {
            Side::L => self.first(i),
            Side::R => self.last(i),
        }
    }
    pub fn is_pal_single(&self, i: usize) -> bool {
        !self.stranded && self.nodes[i].seq.len() == self.k && is_pal(&self.nodes[i].seq)
    }
    /// canonical k-mers of node i, in node order
    pub fn kmers(&self, i: usize) -> Vec<S> {
        windows(&self.nodes[i].seq, self.k).into_iter().map(|w| canon(&w, self.stranded).0).collect()
    }
    /// node partition as a set of canonical k-mer sets
    pub fn partition(&self) -> BTreeSet<BTreeSet<S>> {
        (0..self.nodes.len()).map(|i| self.kmers(i).into_iter().collect()).collect()
    }
    /// Index of terminal k-mers: for a query "k-mer string t entered while moving in direction
    /// `dir`", all answers a correct lookup may give.
    pub fn link_index(&self) -> LinkIndex {
        let mut firsts: BTreeMap<S, Vec<usize>> = BTreeMap::new();
        let mut lasts: BTreeMap<S, Vec<usize>> = BTreeMap::new();
        for i in 0..self.nodes.len() {
            firsts.entry(self.first(i).to_vec()).or_default().push(i);
            lasts.entry(self.last(i).to_vec()).or_default().push(i);
        }
        LinkIndex { firsts, lasts, stranded: self.stranded }
    }
}

pub struct LinkIndex {
    firsts: BTreeMap<S, Vec<usize>>,
    lasts: BTreeMap<S, Vec<usize>>,
    stranded: bool,
}
impl LinkIndex {
    /// acceptable answers for find_link(t, dir)
    pub fn answers(&self, t: &[u8], dir: Side) -> Vec<EdgeV> {
        let mut out = vec![];
        let r = rc(t);
        match dir {
            Side::R => {
                for j in self.firsts.get(t).into_iter().flatten() {
                    out.push((*j, Side::L, false));
                }
                if !self.stranded {
                    for j in self.lasts.get(&r).into_iter().flatten() {
                        out.push((*j, Side::R, true));
                    }
                }
            }
            Side::L => {
                for j in self.lasts.get(t).into_iter().flatten() {
                    out.push((*j, Side::R, false));
                }
                if !self.stranded {
                    for j in self.firsts.get(&r).into_iter().flatten() {
                        out.push((*j, Side::L, true));
                    }
                }
            }
        }
        out
    }
}

/// extend an oriented k-mer string by one base on a side
pub fn ext_str(w: &[u8], side: Side, b: u8) -> S {
    match side {
        Side::R => {
            let mut y = w[1..].to_vec();
            y.push(b);
            y
        }
        Side::L => {
            let mut y = vec![b];
            y.extend_from_slice(&w[..w.len() - 1]);
            y
        }
    }
}

/// Dispatch a generic function over the k-mer type selected by a runtime K.
#[macro_export]
macro_rules! with_kmer {
    ($k:expr, $K:ident => $body:expr) => {{
        use debruijn::kmer::*;
        match $k {
            4 => { type $K = Kmer4; $body }
            5 => { type $K = Kmer5; $body }
            6 => { type $K = Kmer6; $body }
            8 => { type $K = Kmer8; $body }
            10 => { type $K = Kmer10; $body }
            12 => { type $K = Kmer12; $body }
            14 => { type $K = Kmer14; $body }
            15 => { type $K = Kmer15; $body }
            16 => { type $K = Kmer16; $body }
            20 => { type $K = Kmer20; $body }
            24 => { type $K = Kmer24; $body }
            30 => { type $K = Kmer30; $body }
            31 => { type $K = VarIntKmer<u64, K31>; $body }
            32 => { type $K = Kmer32; $body }
            40 => { type $K = Kmer40; $body }
            48 => { type $K = Kmer48; $body }
            64 => { type $K = Kmer64; $body }
            other => panic!("unsupported K {}", other),
        }
    }};
}
pub const ALL_K: [usize; 17] = [4, 5, 6, 8, 10, 12, 14, 15, 16, 20, 24, 30, 31, 32, 40, 48, 64];
/// the wide types for which the costlier quick plans (C04, C05, C09) run the lifted families; the thorough tier uses all of BIG_K
pub const LIFT_QUICK_K: [usize; 5] = [8, 15, 16, 40, 64];
pub const BIG_K: [usize; 14] = [8, 10, 12, 14, 15, 16, 20, 24, 30, 31, 32, 40, 48, 64];

/// Iterator-contract laws for an iterator that can be re-created: every std adaptor that an implementation may
/// specialise (nth, skip, step_by, last, count) must agree with plain next() iteration, i.e. with `expected`.
/// The adaptors are applied to the RAW iterator (a `.map()` in between would hide an overridden `nth`); `conv`
/// turns an item into its comparable form afterwards.
pub fn iterator_laws_by<I: Iterator, T: PartialEq + std::fmt::Debug>(what: &str, mk: &dyn Fn() -> I, conv: &dyn Fn(I::Item) -> T, expected: &[T]) -> Option<String> {
    let len = expected.len();
    let collected: Vec<T> = mk().map(conv).collect();
    if collected != expected {
        return Some(format!("{}: plain iteration yields {} items, want {}", what, collected.len(), len));
    }
    let mut ns = vec![0usize, 1, 2, len.saturating_sub(2), len.saturating_sub(1), len, len + 1, len + 7];
    ns.sort();
    ns.dedup();
    for &n in &ns {
        let mut it = mk();
        let got = it.nth(n).map(conv);
        if got.as_ref() != expected.get(n) {
            return Some(format!("{}: nth({}) = {:?}, want {:?} (len {})", what, n, got, expected.get(n), len));
        }
        let after = it.next().map(conv);
        if after.as_ref() != expected.get(n + 1) {
            return Some(format!("{}: next() after nth({}) = {:?}, want {:?}", what, n, after, expected.get(n + 1)));
        }
        let sk: Vec<T> = mk().skip(n).map(conv).collect();
        if sk[..] != expected[n.min(len)..] {
            return Some(format!("{}: skip({}) yields {} items, want {}", what, n, sk.len(), len - n.min(len)));
        }
        if n >= 1 && n <= len {
            let mut it = mk();
            it.next();
            let g = it.nth(n - 1).map(conv);
            if g.as_ref() != expected.get(n) {
                return Some(format!("{}: next(); nth({}) = {:?}, want {:?}", what, n - 1, g, expected.get(n)));
            }
        }
    }
    for s in 1..=3usize {
        let st: Vec<T> = mk().step_by(s).map(conv).collect();
        let want: Vec<&T> = expected.iter().step_by(s).collect();
        if st.iter().collect::<Vec<&T>>() != want {
            return Some(format!("{}: step_by({}) yields {:?}", what, s, st));
        }
    }
    // the consuming methods an iterator may specialise must see what is LEFT, not the whole sequence:
    // after m items have been taken (by next(), or by by_ref().take(m)): count / last / fold
    // (size_hint after partial consumption is not judged: no property promises it)
    let mut ms = vec![1usize, len / 2, len.saturating_sub(1), len, len + 1];
    ms.sort();
    ms.dedup();
    for &m in &ms {
        let rem = len.saturating_sub(m);
        let advance = |via_take: bool| -> I {
            let mut it = mk();
            if via_take {
                let _ = it.by_ref().take(m).count();
            } else {
                for _ in 0..m {
                    it.next();
                }
            }
            it
        };
        for via_take in [false, true] {
            let how = if via_take { "by_ref().take(m)" } else { "m x next()" };
            let c = advance(via_take).count();
            if c != rem {
                return Some(format!("{}: after {} with m={}: count() = {}, but {} items are left", what, how, m, c, rem));
            }
            let l = advance(via_take).last().map(conv);
            let want_last = if rem > 0 { expected.last() } else { None };
            if l.as_ref() != want_last {
                return Some(format!("{}: after {} with m={}: last() = {:?}, want {:?}", what, how, m, l, want_last));
            }
            let folded: Vec<T> = advance(via_take).fold(vec![], |mut acc, x| {
                acc.push(conv(x));
                acc
            });
            if folded[..] != expected[m.min(len)..] {
                return Some(format!("{}: after {} with m={}: fold() visits {} items, {} are left", what, how, m, folded.len(), rem));
            }
        }
    }
    if mk().count() != len {
        return Some(format!("{}: count() = {}, want {}", what, mk().count(), len));
    }
    if mk().last().map(conv).as_ref() != expected.last() {
        return Some(format!("{}: last() wrong", what));
    }
    let mut it = mk();
    for _ in 0..len {
        it.next();
    }
    if it.next().is_some() || it.next().is_some() {
        return Some(format!("{}: yields an item after the end", what));
    }
    None
}
pub fn iterator_laws<T: PartialEq + std::fmt::Debug, I: Iterator<Item = T>>(what: &str, mk: &dyn Fn() -> I, expected: &[T]) -> Option<String> {
    iterator_laws_by(what, mk, &|x| x, expected)
}
