//! Oracles that judge a graph view against the string-level reference table.
use crate::*;

pub type R = Result<(), (String, String)>;
macro_rules! bail {
    ($sig:expr, $($a:tt)*) => { return Err(($sig.to_string(), format!($($a)*))) };
}

fn node_str<D>(g: &GraphV<D>, i: usize) -> String {
    ascii(&g.nodes[i].seq)
}

/// C01 (a)+(b): every table key occurs in exactly one node at exactly one offset, no node holds a
/// k-mer that is not in the table, every node is at least K long, and (if `steps`) every step
/// between consecutive k-mers of a node follows an extension recorded for both of them.
pub fn check_lossless<D: Clone>(g: &GraphV<D>, t: &Table, steps: bool) -> R {
    let k = g.k;
    let mut seen: BTreeMap<S, (usize, usize)> = BTreeMap::new();
    for i in 0..g.nodes.len() {
        let s = &g.nodes[i].seq;
        if s.len() < k {
            bail!("node-shorter-than-k", "node {} = {} shorter than K={}", i, node_str(g, i), k);
        }
        if g.nodes[i].kmer_iter != windows(s, k) {
            bail!("node-kmer-iteration-differs", "node {} = {}: the k-mers yielded by its sequence's k-mer iterator are not the windows of its bases", i, node_str(g, i));
        }
        for (off, w) in windows(s, k).iter().enumerate() {
            let (c, _) = canon(w, g.stranded);
            if !t.e.contains_key(&c) {
                bail!("alien-kmer", "node {} = {} contains k-mer {} at offset {} that is not in the table", i, node_str(g, i), ascii(&c), off);
            }
            if let Some((pi, po)) = seen.insert(c.clone(), (i, off)) {
                bail!("duplicate-kmer", "k-mer {} occurs at node {} offset {} and node {} offset {}", ascii(&c), pi, po, i, off);
            }
        }
        if steps {
            let ws = windows(s, k);
            for j in 0..ws.len().saturating_sub(1) {
                let (a, b) = (&ws[j], &ws[j + 1]);
                if !t.has_ext_oriented(a, Side::R, b[k - 1]) || !t.has_ext_oriented(b, Side::L, a[0]) {
                    bail!("step-without-extension", "node {} = {}: step {} -> {} is not recorded as an extension on both k-mers", i, node_str(g, i), ascii(a), ascii(b));
                }
            }
        }
    }
    if seen.len() != t.e.len() {
        let missing: Vec<String> = t.e.keys().filter(|x| !seen.contains_key(*x)).map(|x| ascii(x)).take(5).collect();
        bail!("missing-kmer", "{} table k-mers are in no node, e.g. {:?}", t.e.len() - seen.len(), missing);
    }
    Ok(())
}

/// payload of every node == `expect(keys of the node in node order)`
pub fn check_payload<D: Clone + Debug, E: Debug>(g: &GraphV<D>, expect: &dyn Fn(&[S]) -> E, same: &dyn Fn(&D, &E) -> bool) -> R {
    for i in 0..g.nodes.len() {
        let ks = g.kmers(i);
        let e = expect(&ks);
        if !same(&g.nodes[i].data, &e) {
            bail!("payload-mismatch", "node {} = {}: payload {:?}, reduction over its k-mers gives {:?}", i, node_str(g, i), g.nodes[i].data, e);
        }
    }
    Ok(())
}

/// C02: the node partition equals the maximal-unbranched-path components of the reference.
pub fn check_maximal<D: Clone>(g: &GraphV<D>, t: &Table, join: &dyn Fn(&S, &S) -> bool) -> R {
    // a node must be a SET of k-mers: a repeated k-mer means the node runs through a link that joins
    // a k-mer with itself (ring closed on its own seed, self loop, hairpin re-traversal)
    for i in 0..g.nodes.len() {
        let ks = g.kmers(i);
        let set: BTreeSet<&S> = ks.iter().collect();
        if set.len() != ks.len() {
            bail!("node-repeats-kmer", "node {} = {} contains a k-mer more than once", i, node_str(g, i));
        }
    }
    let total: usize = (0..g.nodes.len()).map(|i| g.nodes[i].seq.len() + 1 - g.k).sum();
    if total != t.e.len() {
        bail!("node-kmer-count", "nodes hold {} k-mers in total, the table has {}", total, t.e.len());
    }
    let want = t.unitigs(join);
    let got = g.partition();
    if got != want {
        let fmt = |p: &BTreeSet<BTreeSet<S>>| -> Vec<Vec<String>> { p.iter().map(|c| c.iter().map(|x| ascii(x)).collect()).collect() };
        let extra: BTreeSet<_> = got.difference(&want).cloned().collect();
        let lack: BTreeSet<_> = want.difference(&got).cloned().collect();
        // classify
        let sig = if extra.iter().any(|n| lack.iter().filter(|w| w.is_subset(n)).count() >= 2) {
            "over-merged"
        } else if lack.iter().any(|w| extra.iter().filter(|n| n.is_subset(w)).count() >= 2) {
            "under-merged"
        } else {
            "partition-differs"
        };
        bail!(sig, "nodes {:?} but maximal unbranched paths are {:?}", fmt(&extra), fmt(&lack));
    }
    Ok(())
}

/// canonical (K+1)-mers spelled by intra-node steps and by reported (resolvable) edges
pub fn graph_kp1<D: Clone>(g: &GraphV<D>) -> BTreeSet<S> {
    let k = g.k;
    let mut out = BTreeSet::new();
    for (i, n) in g.nodes.iter().enumerate() {
        for w in windows(&n.seq, k + 1) {
            out.insert(canon(&w, g.stranded).0);
        }
        // edges: the i-th reported edge on a side corresponds to the i-th set base that resolves;
        // to stay independent of that pairing, spell by target instead
        for side in [Side::L, Side::R] {
            for (tgt, tside, _) in n.edges(side) {
                if *tgt >= g.nodes.len() {
                    continue;
                }
                // the (K+1)-mer is my terminal k-mer plus the base of the target's facing k-mer
                let me = g.term(i, side);
                let tk: S = match tside {
                    Side::L => g.first(*tgt).to_vec(),
                    Side::R => rc(g.last(*tgt)),
                };
                // target entered through its left side reads tk forward after me (if I leave right)
                let w: S = match side {
                    Side::R => {
                        let mut w = me.to_vec();
                        w.push(tk[k - 1]);
                        w
                    }
                    Side::L => {
                        // leaving left: the target k-mer precedes me; in my orientation it is rc(tk) if entered by L
                        let t2: S = match tside {
                            Side::R => g.last(*tgt).to_vec(),
                            Side::L => rc(g.first(*tgt)),
                        };
                        let mut w = vec![t2[0]];
                        w.extend_from_slice(me);
                        w
                    }
                };
                out.insert(canon(&w, g.stranded).0);
            }
        }
    }
    out
}

/// C03.1: node extensions and reported edges against the reference.
/// `closed` = the table's extensions reference only present k-mers (then every bit must resolve
/// and node extension sets must equal the reference's terminal extension sets).
pub fn check_adjacency<D: Clone>(g: &GraphV<D>, t: &Table, closed: bool) -> R {
    let k = g.k;
    let idx = g.link_index();
    for i in 0..g.nodes.len() {
        let n = &g.nodes[i];
        // node extension sets == extension sets of its terminal k-mers, oriented as the node is spelled
        let want_l: Bases = std::array::from_fn(|b| t.has_ext_oriented(g.first(i), Side::L, b as u8));
        let want_r: Bases = std::array::from_fn(|b| t.has_ext_oriented(g.last(i), Side::R, b as u8));
        if g.is_pal_single(i) {
            let got = or_bases(&n.r, &comp_bases(&n.l));
            let want = or_bases(&want_r, &comp_bases(&want_l));
            if got != want {
                bail!("node-exts-mismatch", "palindromic node {} = {}: merged extensions {:?}, reference {:?}", i, node_str(g, i), got, want);
            }
        } else if n.l != want_l || n.r != want_r {
            bail!("node-exts-mismatch", "node {} = {}: extensions L{:?} R{:?}, reference L{:?} R{:?}", i, node_str(g, i), n.l, n.r, want_l, want_r);
        }
        for side in [Side::L, Side::R] {
            let bs = n.bases(side);
            let mut expect_lists: Vec<Vec<EdgeV>> = vec![];
            for b in 0..4u8 {
                if bs[b as usize] {
                    let tk = ext_str(g.term(i, side), side, b);
                    let a = idx.answers(&tk, side);
                    if a.is_empty() {
                        if closed {
                            bail!("dangling-extension", "node {} = {} side {:?} base {}: extension resolves to no node", i, node_str(g, i), side, b);
                        }
                    } else {
                        expect_lists.push(a);
                    }
                }
            }
            let got = n.edges(side);
            // l_edges() / r_edges() are the same query under another name
            let acc = match side {
                Side::L => &n.ledges_acc,
                Side::R => &n.redges_acc,
            };
            let (mut a, mut b) = (got.clone(), acc.clone());
            a.sort();
            b.sort();
            if a != b {
                bail!("edge-accessor-differs", "node {} = {} side {:?}: edges(dir) reports {:?} but the l_edges()/r_edges() accessor {:?}", i, node_str(g, i), side, got, acc);
            }
            if got.len() != expect_lists.len() {
                bail!("edge-count", "node {} = {} side {:?}: {} edges reported, {} extensions resolve", i, node_str(g, i), side, got.len(), expect_lists.len());
            }
            // the ORDER of the reported edges is not promised: match them to the resolvable extensions as a multiset
            if !match_edges(got, &expect_lists) {
                bail!("wrong-edge", "node {} = {} side {:?}: reported edges {:?}, acceptable (one per resolvable extension) {:?}", i, node_str(g, i), side, got, expect_lists);
            }
            // symmetry
            for (tgt, tside, _) in got {
                let tn = &g.nodes[*tgt];
                let sides: Vec<Side> = if g.is_pal_single(*tgt) { vec![Side::L, Side::R] } else { vec![*tside] };
                let back = sides.iter().any(|s| tn.edges(*s).iter().any(|(b, bs, _)| *b == i && (g.is_pal_single(i) || *bs == side)));
                if !back {
                    bail!("asymmetric-edge", "node {} side {:?} reaches node {} side {:?} but not vice versa", i, side, tgt, tside);
                }
            }
        }
    }
    let _ = k;
    Ok(())
}

/// can every reported edge be assigned to a distinct resolvable extension whose acceptable answers contain it?
/// (at most 4 per side: brute-force over assignments)
pub fn match_edges(got: &[EdgeV], expect: &[Vec<EdgeV>]) -> bool {
    fn rec(got: &[EdgeV], expect: &[Vec<EdgeV>], used: &mut Vec<bool>) -> bool {
        match got.split_first() {
            None => true,
            Some((e, rest)) => {
                for j in 0..expect.len() {
                    if !used[j] && expect[j].contains(e) {
                        used[j] = true;
                        if rec(rest, expect, used) {
                            return true;
                        }
                        used[j] = false;
                    }
                }
                false
            }
        }
    }
    got.len() == expect.len() && rec(got, expect, &mut vec![false; expect.len()])
}

/// find_link for an arbitrary k-mer: result must be one of the acceptable answers, None iff there are none
pub fn check_find_link(idx: &LinkIndex, t: &[u8], dir: Side, got: Option<EdgeV>) -> R {
    let acc = idx.answers(t, dir);
    match got {
        None if acc.is_empty() => Ok(()),
        Some(e) if acc.contains(&e) => Ok(()),
        _ => bail!("find-link-wrong", "find_link({}, {:?}) = {:?}, acceptable {:?}", ascii(t), dir, got, acc),
    }
}
