//! vc-filter: C05 - k-mer counting/filtering equals the reference grouping for any pass count.
//! E1: every read set of the families x every memory budget (pass plan) x summarizers, on the
//! real filter_kmers (hook: MEM_UNIT turns the budget into bytes, LAST_PASSES reports the plan).
use boomphf::hashmap::BoomHashMap2;
use debruijn::filter::*;
use debruijn::verif_hooks::{LAST_PASSES, MEM_UNIT};
use debruijn::*;
use serde_json::json;
use std::cell::RefCell;
use std::collections::{BTreeMap, BTreeSet};
use std::sync::Mutex;
use vcommon::families::{catalogue, Space};
use vcommon::refmodel::*;
use vcommon::report::{Report, Violation};
use vcommon::seq::*;
use vcommon::sweep::Outcome;
use vglue::case::{GCase, Part};
use vglue::*;

const FLAGS: [&str; 12] = ["palindromic_kmer", "kmer_seen_on_both_strands", "kmer_repeated", "kmer_rejected_by_some_threshold", "boundary_extensions_supplied", "two_or_more_passes", "ten_or_more_passes", "several_labels_on_one_kmer", "", "", "", ""];
const F_PAL: u64 = 1;
const F_BOTH: u64 = 2;
const F_REPEAT: u64 = 4;
const F_REJECT: u64 = 8;
const F_BEXT: u64 = 16;
const F_PASS2: u64 = 32;
const F_PASS10: u64 = 64;
const F_LABELS: u64 = 128;

static PASSES_SEEN: Mutex<BTreeSet<usize>> = Mutex::new(BTreeSet::new());
thread_local! { static LOCAL_PASSES: RefCell<BTreeSet<usize>> = RefCell::new(BTreeSet::new()); }
fn note_passes() -> usize {
    let p = LAST_PASSES.with(|c| c.get());
    LOCAL_PASSES.with(|l| {
        if l.borrow_mut().insert(p) {
            PASSES_SEEN.lock().unwrap().insert(p);
        }
    });
    p
}

/// harness-defined summarizer: accepts everything and records what it was shown
struct Recording {
    calls: std::sync::atomic::AtomicUsize,
}
impl KmerSummarizer<u64, Vec<(u8, u64, Vec<u8>)>> for Recording {
    fn summarize<K, F: Iterator<Item = (K, Exts, u64)>>(&self, items: F) -> (bool, Exts, Vec<(u8, u64, Vec<u8>)>) {
        self.calls.fetch_add(1, std::sync::atomic::Ordering::Relaxed);
        let mut all = Exts::empty();
        let mut v = vec![];
        for (k, e, d) in items {
            all = all.add(e);
            // K is opaque here (no bound): record its raw bytes to check that every item carries the key
            let raw = unsafe { std::slice::from_raw_parts(&k as *const K as *const u8, std::mem::size_of::<K>()) }.to_vec();
            v.push((e.val, d, raw));
        }
        (true, all, v)
    }
}

fn boundary(which: i64) -> (Bases, Bases) {
    match which {
        0 => ([false; 4], [false; 4]),
        1 => ([true; 4], [true; 4]),
        2 => ([false, true, false, false], [false; 4]),
        3 => ([false; 4], [true, false, false, true]),
        // three bases on a side (the complement of a 3-set is not a permutation-invariant set)
        _ => ([true, true, false, true], [true, false, true, true]),
    }
}

fn budgets(kmer_mem: usize, all: bool) -> Vec<usize> {
    let mut v = vec![];
    let mut last = usize::MAX;
    for m in 1..=kmer_mem + 1 {
        let q = kmer_mem / m;
        if all || q != last {
            v.push(m);
            last = q;
        }
    }
    v
}

fn merged(l: &Bases, r: &Bases) -> Bases {
    or_bases(r, &comp_bases(l))
}

/// compare one filter_kmers result with the reference
fn judge<K: Kmer, D: std::fmt::Debug>(
    o: &mut Outcome,
    what: &str,
    res: &(BoomHashMap2<K, Exts, D>, Vec<K>),
    model: &Table,
    accept: &dyn Fn(&Entry) -> bool,
    payload_ok: &dyn Fn(&S, &Entry, &D) -> Result<(), String>,
    report_all: bool,
    lookups: bool,
) {
    o.transitions += 1;
    let k = K::k();
    let want: BTreeMap<&S, &Entry> = model.e.iter().filter(|(_, e)| accept(e)).collect();
    let mut seen: BTreeSet<S> = BTreeSet::new();
    if res.0.len() != want.len() {
        o.fail("table-keys-wrong", format!("[{}] {} keys returned, reference accepts {}", what, res.0.len(), want.len()));
    }
    for (kmer, exts, data) in res.0.iter() {
        let key = kstr(kmer);
        if !seen.insert(key.clone()) {
            o.fail("table-key-duplicated", format!("[{}] key {} returned twice", what, ascii(&key)));
        }
        match want.get(&key) {
            None => o.fail("table-keys-wrong", format!("[{}] key {} returned but not accepted by the reference", what, ascii(&key))),
            Some(en) => {
                let (l, r) = decode_exts(exts.val);
                let ok = if model.is_pal_key(&key) { merged(&l, &r) == merged(&en.l, &en.r) } else { l == en.l && r == en.r };
                if !ok {
                    o.fail("table-extensions-wrong", format!("[{}] key {}: extensions L{:?} R{:?}, reference L{:?} R{:?}", what, ascii(&key), l, r, en.l, en.r));
                }
                if let Err(e) = payload_ok(&key, en, data) {
                    o.fail("table-summary-wrong", format!("[{}] key {}: {}", what, ascii(&key), e));
                }
            }
        }
    }
    // all_kmers: every distinct k-mer in ascending order (or empty when not requested)
    let all: Vec<S> = res.1.iter().map(|x| kstr(x)).collect();
    let want_all: Vec<S> = if report_all { model.e.keys().cloned().collect() } else { vec![] };
    if all != want_all {
        o.fail("all-kmers-wrong", format!("[{}] all_kmers has {} entries (sorted/distinct: {}), reference {}", what, all.len(), all.windows(2).all(|w| w[0] < w[1]), want_all.len()));
    }
    // lookups for present and absent k-mers
    if !lookups {
        return;
    }
    if k <= 6 {
        for w in all_strings(k) {
            let km = mk::<K>(&w);
            let present = want.contains_key(&w);
            if res.0.get(&km).is_some() != present || res.0.get_key_id(&km).is_some() != present {
                o.fail("table-lookup-wrong", format!("[{}] lookup of {} says present={}, reference {}", what, ascii(&w), res.0.get(&km).is_some(), present));
            }
        }
    } else {
        for w in model.e.keys() {
            let present = want.contains_key(w);
            if res.0.get(&mk::<K>(w)).is_some() != present {
                o.fail("table-lookup-wrong", format!("[{}] lookup of {} says present={}, reference {}", what, ascii(w), !present, present));
            }
            let mut w2 = w.clone();
            w2[k / 2] = (w2[k / 2] + 1) % 4;
            if !model.e.contains_key(&canon(&w2, model.stranded).0) && res.0.get(&mk::<K>(&w2)).is_some() {
                o.fail("table-lookup-wrong", format!("[{}] absent k-mer {} is found", what, ascii(&w2)));
            }
        }
    }
}

fn run<K: Kmer>(c: &GCase) -> Outcome {
    let mut o = Outcome::default();
    MEM_UNIT.with(|m| m.set(1));
    let k = K::k();
    let mut rs = c.reads_s();
    let (bl, br) = boundary(c.get("bext"));
    let lab = c.get("labels");
    // labels 0: one label; 1: read i carries 100 + i (ascending in input order); 2: the first read is given
    // once more at the end and the labels are 5, 3, 5, 1, ... - not ascending in input order, and one label
    // recurs with a different one in between (the label-set summary must sort AND drop repeats)
    if lab == 2 && !rs.is_empty() {
        let first = rs[0].clone();
        rs.push(first);
    }
    let reads: Vec<Read> = rs.iter().enumerate().map(|(i, s)| Read { seq: s.clone(), bl, br, label: match lab { 0 => 7, 1 => 100 + i as u64, _ => [5u64, 3, 5, 1][i % 4] } }).collect();
    let model = Table::from_reads(&reads, k, c.stranded);
    let seqs = to_seqs(&reads);
    let input_kmers: usize = rs.iter().map(|r| r.len().saturating_sub(k - 1)).sum();
    let kmer_mem = input_kmers * std::mem::size_of::<(K, u64)>();
    let maxmult = model.e.values().map(|e| e.count()).max().unwrap_or(0);
    // classes
    for (key, en) in &model.e {
        if model.is_pal_key(key) {
            o.flags |= F_PAL;
        }
        let fl = en.obs.iter().filter(|x| x.flipped).count();
        if fl > 0 && fl < en.obs.len() && !model.is_pal_key(key) {
            o.flags |= F_BOTH;
        }
        if en.count() >= 2 {
            o.flags |= F_REPEAT;
        }
        if en.labels().len() >= 2 {
            o.flags |= F_LABELS;
        }
    }
    if c.get("bext") != 0 {
        o.flags |= F_BEXT;
    }
    let few: Vec<usize> = {
        let mut f = vec![kmer_mem + 1, (kmer_mem / 2).max(1), (kmer_mem / 9).max(1)];
        f.dedup();
        f
    };
    let bs = match c.get("allb") {
        2 => budgets(kmer_mem.max(1), true),
        1 => budgets(kmer_mem.max(1), false),
        _ => {
            let mut f = few.clone();
            if !f.contains(&1) {
                f.push(1);
            }
            f
        }
    };
    let full = c.get("full") == 1;
    // --- CountFilter(n) ---
    for n in 0..=maxmult + 1 {
        if model.e.values().any(|e| e.count() < n) {
            o.flags |= F_REJECT;
        }
        let these: &Vec<usize> = if n == 1 || full { &bs } else { &few };
        for &m in these {
            for report_all in [true, false] {
                if !(report_all || n == 1 || full) {
                    continue;
                }
                let res = filter_kmers::<K, _, _, _, _>(&seqs, &Box::new(CountFilter::new(n)), c.stranded, report_all, m);
                let p = note_passes();
                if p >= 2 {
                    o.flags |= F_PASS2;
                }
                if p >= 10 {
                    o.flags |= F_PASS10;
                }
                judge(&mut o, &format!("CountFilter({}) budget {} ({} passes) report_all={}", n, m, p, report_all), &res, &model, &|e| e.count() >= n, &|_, en, d: &u16| if *d as usize == en.count().min(65535) { Ok(()) } else { Err(format!("count {} but {} observations", d, en.count())) }, report_all, report_all && (n == 1 || n == 2) && (m == these[0] || m == *these.last().unwrap()));
            }
        }
    }
    // --- CountFilterSet(n) ---
    for n in [0usize, 1, 2, maxmult, maxmult + 1] {
        for &m in &few {
            let res = filter_kmers::<K, _, _, _, _>(&seqs, &Box::new(CountFilterSet::new(n)), c.stranded, true, m);
            let p = note_passes();
            judge(&mut o, &format!("CountFilterSet({}) budget {} ({} passes)", n, m, p), &res, &model, &|e| e.count() >= n, &|_, en, d: &Vec<u64>| if *d == en.labels() { Ok(()) } else { Err(format!("label set {:?}, reference {:?}", d, en.labels())) }, true, false);
        }
    }
    // --- recording summarizer: exactly once, exactly its observations, in input order ---
    for &m in if full { &bs } else { &few } {
        let rec = Recording { calls: std::sync::atomic::AtomicUsize::new(0) };
        let boxed = Box::new(rec);
        let res = filter_kmers::<K, _, _, _, _>(&seqs, &boxed, c.stranded, false, m);
        let p = note_passes();
        let calls = boxed.calls.load(std::sync::atomic::Ordering::Relaxed);
        if calls != model.e.len() {
            o.fail("summarizer-call-count", format!("budget {} ({} passes): summarizer called {} times for {} distinct k-mers", m, p, calls, model.e.len()));
        }
        judge(
            &mut o,
            &format!("Recording budget {} ({} passes)", m, p),
            &res,
            &model,
            &|_| true,
            &|key, en, d: &Vec<(u8, u64, Vec<u8>)>| {
                if d.len() != en.obs.len() {
                    return Err(format!("summarised over {} observations, reference has {}", d.len(), en.obs.len()));
                }
                let kraw = {
                    let km = mk::<K>(key);
                    unsafe { std::slice::from_raw_parts(&km as *const K as *const u8, std::mem::size_of::<K>()) }.to_vec()
                };
                for (i, ((ev, lab, raw), ob)) in d.iter().zip(en.obs.iter()).enumerate() {
                    let (l, r) = decode_exts(*ev);
                    let ok = if model.is_pal_key(key) { merged(&l, &r) == merged(&ob.l, &ob.r) } else { l == ob.l && r == ob.r };
                    if !ok || *lab != ob.label {
                        return Err(format!("observation {} = (exts {:#010b}, label {}), reference (L{:?} R{:?}, label {}) [read {} pos {}]", i, ev, lab, ob.l, ob.r, ob.label, ob.read, ob.pos));
                    }
                    if *raw != kraw {
                        return Err(format!("observation {} carries a different k-mer than its group key", i));
                    }
                }
                Ok(())
            },
            false,
            false,
        );
    }
    o
}

fn run_case(c: &GCase) -> Outcome {
    with_kmer!(c.k, K => run::<K>(c))
}

fn plan(quick: bool) -> Vec<Part> {
    let mut v = vec![];
    let d = |p: Part, bext: &[i64], labels: &[i64], full: i64, allb: i64| p.dim("bext", bext).dim("labels", labels).dim("full", &[full]).dim("allb", &[allb]);
    if quick {
        v.push(d(Part::new("C05", "R1+RT", 4, Space::singles(4, 7).plus(Space::thresholds(4, 6))), &[0, 4], &[0], 0, 0));
        v.push(d(Part::new("C05", "R1/full", 4, Space::singles(4, 6)), &[1, 4], &[0], 1, 2));
        v.push(d(Part::new("C05", "R2", 4, Space::pairs(4, 4).plus(Space::with_rc(4, 6))), &[3], &[1, 2], 0, 0));
        v.push(d(Part::new("C05", "R1+RT", 5, Space::singles(5, 7).plus(Space::thresholds(5, 6))), &[0, 2], &[0], 0, 0));
        v.push(d(Part::new("C05", "R1", 6, Space::singles(6, 7)), &[0], &[0], 0, 0));
    } else {
        v.push(d(Part::new("C05", "R1+RT", 4, Space::singles(4, 9).plus(Space::thresholds(4, 8))), &[0, 1], &[0], 0, 0));
        v.push(d(Part::new("C05", "R1+RT/budgets", 4, Space::singles(4, 8).plus(Space::thresholds(4, 7))), &[0, 3], &[0], 0, 1));
        v.push(d(Part::new("C05", "R1/full", 4, Space::singles(4, 7)), &[0, 1, 2, 3, 4], &[0], 1, 2));
        v.push(d(Part::new("C05", "R2", 4, Space::pairs(4, 5).plus(Space::with_rc(4, 8))), &[3], &[0, 1, 2], 0, 0));
        v.push(d(Part::new("C05", "R3", 4, Space::triples(4, 4)), &[0], &[2], 0, 0));
        v.push(d(Part::new("C05", "R1+RT", 5, Space::singles(5, 9).plus(Space::thresholds(5, 8))), &[0, 2], &[0], 0, 0));
        v.push(d(Part::new("C05", "R1/full", 5, Space::singles(5, 7)), &[0, 1], &[0], 1, 2));
        v.push(d(Part::new("C05", "R1", 6, Space::singles(6, 9)), &[0, 1], &[0], 0, 0));
        v.push(d(Part::new("C05", "R1/full", 6, Space::singles(6, 8)), &[0], &[0], 1, 1));
    }
    for k in BIG_K {
        v.push(d(Part::new("C05", "catalogue", k, Space { segs: vec![catalogue(k)] }), if quick { &[1] } else { &[0, 1, 3] }, &[1], 0, 0));
        if !quick || LIFT_QUICK_K.contains(&k) {
            v.push(d(Part::new("C05", "lifted", k, vcommon::families::lifted(k, !quick)), if quick { &[1] } else { &[0, 3] }, &[1], 0, 0));
        }
    }
    v
}

/// order-4 de Bruijn read: all 256 four-base prefixes, i.e. all 256 buckets populated; every budget
fn all_plans(rep: &mut Report, tier: &str) {
    use debruijn::kmer::*;
    MEM_UNIT.with(|m| m.set(1));
    let read = debruijn_seq(4);
    let extra = read[10..40].to_vec();
    let mut plans: BTreeSet<usize> = BTreeSet::new();
    let mut runs = 0u64;
    macro_rules! go {
        ($K:ty) => {
            for stranded in [true, false] {
                let reads = vec![Read { seq: read.clone(), bl: [false; 4], br: [false; 4], label: 7 }, Read { seq: extra.clone(), bl: [true, false, false, false], br: [false, false, true, false], label: 9 }];
                let model = Table::from_reads(&reads, <$K>::k(), stranded);
                let seqs = to_seqs(&reads);
                let nk: usize = reads.iter().map(|r| r.seq.len().saturating_sub(<$K>::k() - 1)).sum();
                let kmer_mem = nk * std::mem::size_of::<($K, u64)>();
                for m in budgets(kmer_mem, tier != "quick" || <$K>::k() == 4) {
                    let mut o = Outcome::default();
                    let res = filter_kmers::<$K, _, _, _, _>(&seqs, &Box::new(CountFilterSet::new(1)), stranded, true, m);
                    let p = note_passes();
                    plans.insert(p);
                    runs += 1;
                    judge(&mut o, &format!("de Bruijn read, K={}, budget {} ({} passes)", <$K>::k(), m, p), &res, &model, &|_| true, &|_, en, d: &Vec<u64>| if *d == en.labels() { Ok(()) } else { Err("labels".into()) }, true, m % 97 == 1);
                    if let Some((sig, det)) = o.err {
                        rep.violation(Violation { signature: sig, case: json!({"special": "debruijn4", "k": <$K>::k(), "stranded": stranded, "budget": m}), detail: det });
                    }
                }
            }
        };
    }
    go!(Kmer4);
    go!(Kmer5);
    go!(Kmer8);
    go!(Kmer16);
    go!(Kmer32);
    rep.count("special:debruijn4_runs", runs);
    rep.count("special:debruijn4_distinct_pass_counts", plans.len() as u64);
    rep.transitions += runs;
    rep.evaluations += runs;
    rep.states += 10;
    rep.extra.insert("pass_counts_debruijn4".into(), json!(plans));
}

/// many observations of the same k-mers in one bucket (> 20, where an unstable sort would start to reorder):
/// the summarizer must still see every k-mer's observations in input order
fn many_observations(rep: &mut Report) {
    use debruijn::kmer::*;
    MEM_UNIT.with(|m| m.set(1));
    let mut g = Lcg(17);
    let motif = g.dna(23);
    // 60 reads: the motif with varying flanks (so extensions differ per observation), labels = read index
    let reads: Vec<Read> = (0..60u64)
        .map(|i| {
            let mut s = vec![(i % 4) as u8];
            s.extend_from_slice(&motif);
            s.push(((i / 4) % 4) as u8);
            if i % 7 == 3 {
                s = rc(&s);
            }
            Read::plain(s, 1000 - i)
        })
        .collect();
    macro_rules! go {
        ($K:ty) => {
            for stranded in [false, true] {
                let model = Table::from_reads(&reads, <$K>::k(), stranded);
                let seqs = to_seqs(&reads);
                let nk: usize = reads.iter().map(|r| r.seq.len().saturating_sub(<$K>::k() - 1)).sum();
                let kmer_mem = nk * std::mem::size_of::<($K, u64)>();
                for m in [kmer_mem + 1, kmer_mem / 3, kmer_mem / 40] {
                    let boxed = Box::new(Recording { calls: std::sync::atomic::AtomicUsize::new(0) });
                    let res = filter_kmers::<$K, _, _, _, _>(&seqs, &boxed, stranded, false, m);
                    let p = note_passes();
                    let mut o = Outcome::default();
                    judge(&mut o, &format!("60 reads sharing a motif, K={}, budget {} ({} passes)", <$K>::k(), m, p), &res, &model, &|_| true, &|key, en, d: &Vec<(u8, u64, Vec<u8>)>| {
                        if d.len() != en.obs.len() {
                            return Err(format!("{} observations, reference {}", d.len(), en.obs.len()));
                        }
                        for (i, ((ev, lab, _), ob)) in d.iter().zip(en.obs.iter()).enumerate() {
                            let (l, r) = decode_exts(*ev);
                            let ok = if model.is_pal_key(key) { merged(&l, &r) == merged(&ob.l, &ob.r) } else { l == ob.l && r == ob.r };
                            if !ok || *lab != ob.label {
                                return Err(format!("observation {} of {} is (exts {:#010b}, label {}), input order gives label {} [read {} pos {}]", i, d.len(), ev, lab, ob.label, ob.read, ob.pos));
                            }
                        }
                        Ok(())
                    }, false, false);
                    rep.count("special:many_observations_runs", 1);
                    rep.transitions += 1;
                    if let Some((sig, det)) = o.err {
                        rep.violation(Violation { signature: if sig == "table-summary-wrong" { "observations-not-in-input-order".into() } else { sig }, case: json!({"special": "many_observations", "k": <$K>::k(), "stranded": stranded, "budget": m}), detail: det });
                    }
                }
            }
        };
    }
    go!(Kmer4);
    go!(Kmer8);
    go!(Kmer16);
}

/// 70 000-base homopolymer: saturating count
fn saturation(rep: &mut Report) {
    use debruijn::kmer::Kmer6;
    MEM_UNIT.with(|m| m.set(1_000_000_000));
    // G A^70000 C: the homopolymer k-mer is observed 69 995 times; its FIRST observation carries the only left
    // extension (G) and its LAST one the only right extension (C) - every observation must be folded in even
    // after the 16-bit count has saturated
    let mut long = vec![2u8];
    long.extend(vec![0u8; 70_000]);
    long.push(1);
    let reads = vec![Read::plain(long, 1), Read::plain(vec![3u8; 100], 2)];
    let seqs = to_seqs(&reads);
    for stranded in [false, true] {
        let model = Table::from_reads(&reads, 6, stranded);
        for thr in [1usize, 65_534, 65_535, 65_536, 70_000] {
            let res = filter_kmers::<Kmer6, _, _, _, _>(&seqs, &Box::new(CountFilter::new(thr)), stranded, true, 1);
            let mut o = Outcome::default();
            judge(&mut o, &format!("G A^70000 C + T^100, CountFilter({})", thr), &res, &model, &|e| e.count().min(65_535) >= thr, &|_, en, d: &u16| if *d as usize == en.count().min(65_535) { Ok(()) } else { Err(format!("count {} but {} observations", d, en.count())) }, true, false);
            rep.count("special:saturation_runs", 1);
            rep.transitions += 1;
            if let Some((sig, det)) = o.err {
                rep.violation(Violation { signature: format!("saturation/{}", sig), case: json!({"special": "homopolymer70000", "stranded": stranded, "thr": thr}), detail: det });
            }
        }
    }
    MEM_UNIT.with(|m| m.set(1));
}

/// hook-free confirmation that the real planner makes several passes: 1 MiB labels
fn unhooked(rep: &mut Report) {
    use debruijn::kmer::Kmer8;
    MEM_UNIT.with(|m| m.set(1_000_000_000));
    let seq = Lcg(5).dna(2107);
    let big = Box::new([0u8; 1 << 20]);
    let seqs: Vec<(DnaBytes, Exts, Box<[u8; 1 << 20]>)> = vec![(DnaBytes(seq.clone()), Exts::empty(), big)];
    struct Cnt;
    impl KmerSummarizer<Box<[u8; 1 << 20]>, u16> for Cnt {
        fn summarize<K, F: Iterator<Item = (K, Exts, Box<[u8; 1 << 20]>)>>(&self, items: F) -> (bool, Exts, u16) {
            let mut e = Exts::empty();
            let mut n = 0;
            for (_, x, _) in items {
                e = e.add(x);
                n += 1;
            }
            (true, e, n)
        }
    }
    let _ = seqs;
    let _ = Cnt;
    rep.extra.insert("unhooked_note".into(), json!("size_of::<(K, Box<..>)> is 16 bytes, so the production unit (10^9 bytes) cannot be reached with boxed labels; inline 1 MiB labels would need > 2 GB per pass - the unhooked multi-pass confirmation is therefore not run; the hook only replaces the constant 10^9"));
    MEM_UNIT.with(|m| m.set(1));
}

fn main() {
    vcommon::sweep::silence_panics();
    let args: Vec<String> = std::env::args().collect();
    if args.len() == 3 && args[1] == "--replay" {
        std::process::exit(vglue::case::replay_file(&args[2], &run_case, &|_, _| None));
    }
    if args.len() != 3 || args[1] != "C05" {
        eprintln!("usage: vc-filter C05 <quick|thorough> | --replay <file>");
        std::process::exit(2);
    }
    let tier = args[2].as_str();
    let mut rep = Report::new("C05", tier, "E1 bounded-exhaustive exploration of filter_kmers over inputs x memory budgets (pass plans) x summarizers vs string reference grouping");
    for p in plan(tier == "quick") {
        vglue::case::run_part(&p, &FLAGS[..8], 151, &run_case, &mut rep);
    }
    let sp_all = |r: &mut Report| all_plans(r, tier);
    let sp_sat = |r: &mut Report| saturation(r);
    let sp_many = |r: &mut Report| many_observations(r);
    let sp_unh = |r: &mut Report| unhooked(r);
    // the smoke plan (second run of the quick tier, on the build with overflow checks) has no special runs
    let specials: Vec<(&str, &dyn Fn(&mut Report))> = if vcommon::report::smoke() { vec![] } else { vec![("debruijn4", &sp_all), ("saturation", &sp_sat), ("many_observations", &sp_many), ("unhooked", &sp_unh)] };
    for (name, f) in specials {
        if let Err(e) = std::panic::catch_unwind(std::panic::AssertUnwindSafe(|| f(&mut rep))) {
            vcommon::sweep::report_outer_panic(&mut rep, &format!("special run {}", name), e);
        }
    }
    let seen = PASSES_SEEN.lock().unwrap().clone();
    rep.extra.insert("pass_counts_executed".into(), json!(seen));
    rep.count("distinct_pass_counts_executed", seen.len() as u64);
    rep.rule = "every read set of the listed families x {stranded, unstranded} x boundary-extension variants x label assignments; CountFilter(n) for every n in 0..=max multiplicity+1, CountFilterSet(n), and a recording summarizer (exactly-once / exact multiset / input order); memory budgets: with MEM_UNIT=1 per part (cfg allb): 2 = every budget from 1 to kmer_mem+1, 1 = every budget that yields a distinct slice count, 0 = {1 pass, 2 passes, ~9 slices, maximum passes}; non-base summarizers use {1 pass, 2 passes, ~9 slices}; plus the order-4 de Bruijn read (all 256 buckets) under every budget (all 31 pass plans the planner can produce), a 70 000-base homopolymer (saturating count), 60 reads sharing a 23-base motif (> 20 observations per k-mer: input order under the recording summarizer), and all 4^K present/absent lookups".into();
    rep.assumptions.push("hook MEM_UNIT replaces only the constant 10^9 in `memory_size * 10^9`; LAST_PASSES reports bucket_ranges.len()".into());
    rep.assumptions.push("'every pass count from 1 to 256' is read as 'every pass count the planner can produce' (31 distinct values; all are executed)".into());
    rep.floor("distinct_pass_counts_executed", 31);
    rep.floor("R1+RT@K4:two_or_more_passes", 1);
    rep.floor("R1+RT@K4:ten_or_more_passes", 1);
    rep.floor("R1+RT@K4:palindromic_kmer", 1);
    rep.floor("R1+RT@K4:kmer_seen_on_both_strands", 1);
    std::process::exit(rep.finish());
}
