//! vc-graph: bounded-exhaustive exploration of the graph pipeline (E1) for
//! C01 C02 C03 C04 C06 C09 and the graph halves of C18 C19 C20.
mod pipe;
mod props;

use vcommon::report::Report;

fn usage() -> ! {
    eprintln!("usage: vc-graph <C01|C02|...> <quick|thorough>   |   vc-graph --replay <file>");
    std::process::exit(2)
}

fn main() {
    vcommon::sweep::silence_panics();
    let args: Vec<String> = std::env::args().collect();
    if args.len() == 3 && args[1] == "--replay" {
        std::process::exit(vglue::case::replay_file(&args[2], &props::run_case, &props::replay_model));
    }
    if args.len() != 3 {
        usage();
    }
    let (prop, tier) = (args[1].as_str(), args[2].as_str());
    if tier != "quick" && tier != "thorough" {
        usage();
    }
    let mut rep = Report::new(prop, tier, "E1 bounded-exhaustive exploration of the real pipeline vs string reference model");
    let parts = props::plan(prop, tier);
    if parts.is_empty() {
        usage();
    }
    for p in &parts {
        vglue::case::run_part(p, &props::flag_names(prop), 0b101_1111, &props::run_case, &mut rep);
    }
    if vcommon::report::smoke() {
        // reduced plan: no extra engines
    } else if let Err(e) = std::panic::catch_unwind(std::panic::AssertUnwindSafe(|| props::extra(prop, tier, &mut rep))) {
        vcommon::sweep::report_outer_panic(&mut rep, "extra engines", e);
    }
    props::finalize(prop, tier, &mut rep);
    std::process::exit(rep.finish());
}
