//! vc-graph: bounded-exhaustive exploration of the graph pipeline (E1) for
//! C01 C02 C03 C04 C06 C09 and the graph halves of C18 C19 C20.
mod case;
mod pipe;
mod props;

use vcommon::report::Report;

fn usage() -> ! {
    eprintln!("usage: vc-graph <C01|C02|...> <quick|thorough>   |   vc-graph --replay <file>");
    std::process::exit(2)
}

fn main() {
    vcommon::sweep::silence_panics();
    let args: Vec<String> = std::env::args().collect();
    if args.len() == 3 && args[1] == "--replay" {
        std::process::exit(case::replay_file(&args[2]));
    }
    if args.len() != 3 {
        usage();
    }
    let (prop, tier) = (args[1].as_str(), args[2].as_str());
    if tier != "quick" && tier != "thorough" {
        usage();
    }
    let mut rep = Report::new(prop, tier, "E1 bounded-exhaustive exploration of the real pipeline vs string reference model");
    let parts = props::plan(prop, tier);
    if parts.is_empty() {
        usage();
    }
    for p in &parts {
        case::run_part(p, &mut rep);
    }
    props::extra(prop, tier, &mut rep);
    props::finalize(prop, tier, &mut rep);
    std::process::exit(rep.finish());
}
