//! Generic (over the k-mer type) drivers of the real pipeline, plus the matching reference tables.
use boomphf::hashmap::BoomHashMap2;
use debruijn::compression::*;
use debruijn::filter::*;
use debruijn::graph::*;
use debruijn::*;
use std::fmt::Debug;
use vcommon::refmodel::*;
use vcommon::seq::*;
use vglue::*;

pub type Tab<K, D> = Vec<(K, (Exts, D))>;

pub fn count_table<K: Kmer>(reads: &[Read], stranded: bool, thr: usize, all: bool) -> (BoomHashMap2<K, Exts, u16>, Vec<K>) {
    filter_kmers::<K, _, _, _, _>(&to_seqs(reads), &Box::new(CountFilter::new(thr)), stranded, all, 1)
}
pub fn colour_table<K: Kmer>(reads: &[Read], stranded: bool, thr: usize) -> (BoomHashMap2<K, Exts, Vec<u64>>, Vec<K>) {
    filter_kmers::<K, _, _, _, _>(&to_seqs(reads), &Box::new(CountFilterSet::new(thr)), stranded, true, 1)
}
pub fn sorted_vec<K: Kmer, D: Clone + Debug>(t: &BoomHashMap2<K, Exts, D>) -> Tab<K, D> {
    let mut v: Tab<K, D> = t.iter().map(|(k, e, d)| (*k, (*e, d.clone()))).collect();
    v.sort_by_key(|x| x.0);
    v
}
pub fn hash_of<K: Kmer, D: Clone + Debug>(v: &Tab<K, D>) -> BoomHashMap2<K, Exts, D> {
    BoomHashMap2::new(v.iter().map(|x| x.0).collect(), v.iter().map(|x| (x.1).0).collect(), v.iter().map(|x| (x.1).1.clone()).collect())
}

/// reference tables: (all observed, kept by threshold with untouched extensions, kept and pruned)
pub struct Models {
    pub all: Table,
    pub kept: Table,
    pub pruned: Table,
}
pub fn models(reads: &[Read], k: usize, stranded: bool, thr: usize) -> Models {
    let all = Table::from_reads(reads, k, stranded);
    let mut kept = all.clone();
    kept.retain(&|_, e| e.count() >= thr);
    let mut pruned = kept.clone();
    pruned.prune(&|_| false);
    Models { all, kept, pruned }
}

/// table whose extensions are "every neighbour that is present" (reference for compress_kmers_no_exts)
pub fn table_from_keys(keys: &[S], k: usize, stranded: bool) -> Table {
    let mut t = Table { k, stranded, e: Default::default() };
    for key in keys {
        t.e.insert(key.clone(), Entry::default());
    }
    let snapshot = t.clone();
    for (key, en) in t.e.iter_mut() {
        for b in 0..4u8 {
            if snapshot.e.contains_key(&snapshot.neighbor(key, Side::L, b).0) {
                en.l[b as usize] = true;
            }
            if snapshot.e.contains_key(&snapshot.neighbor(key, Side::R, b).0) {
                en.r[b as usize] = true;
            }
        }
    }
    t
}

pub fn sum_spec() -> SimpleCompress<u16, impl Fn(u16, &u16) -> u16> {
    SimpleCompress::new(|a: u16, b: &u16| a.saturating_add(*b))
}

/// non-trivial classes of a case, computed from the reference (bit positions documented in props::FLAGS)
pub mod flag {
    pub const PAL: u64 = 1 << 0;
    pub const SELF_LINK: u64 = 1 << 1;
    pub const BRANCH: u64 = 1 << 2;
    pub const BOTH_STRANDS: u64 = 1 << 3;
    pub const REJECTED: u64 = 1 << 4;
    pub const MULTI_KMER_NODE: u64 = 1 << 5;
    pub const REPEAT_IN_READ: u64 = 1 << 6;
    pub const MULTI_NODE: u64 = 1 << 7;
    pub const SPECIFIC: u64 = 1 << 8; // property-specific class 1
    pub const SPECIFIC2: u64 = 1 << 9;
    pub const SPECIFIC3: u64 = 1 << 10;
    pub const SPECIFIC4: u64 = 1 << 11;
}
pub const BASE_FLAG_NAMES: [&str; 8] = ["palindromic_kmer", "self_link_or_hairpin", "branch", "kmer_seen_on_both_strands", "kmer_rejected_by_threshold", "multi_kmer_unitig", "kmer_repeated_within_read", "several_unitigs"];

pub fn model_flags(m: &Models) -> u64 {
    let mut f = 0u64;
    let t = &m.pruned;
    if m.all.e.len() != m.kept.e.len() {
        f |= flag::REJECTED;
    }
    for (key, en) in t.e.iter() {
        if t.is_pal_key(key) {
            f |= flag::PAL;
        }
        if t.deg(key, Side::L) >= 2 || t.deg(key, Side::R) >= 2 {
            f |= flag::BRANCH;
        }
        let fl = en.obs.iter().filter(|o| o.flipped).count();
        if fl > 0 && fl < en.obs.len() && !t.is_pal_key(key) {
            f |= flag::BOTH_STRANDS;
        }
        let mut rs: Vec<usize> = en.obs.iter().map(|o| o.read).collect();
        rs.dedup();
        if rs.len() < en.obs.len() {
            f |= flag::REPEAT_IN_READ;
        }
        for side in [Side::L, Side::R] {
            let bs = t.side_bases(key, side);
            for b in 0..4u8 {
                if bs[b as usize] && t.neighbor(key, side, b).0 == *key {
                    f |= flag::SELF_LINK;
                }
            }
        }
    }
    let u = t.unitigs(&|_, _| true);
    if u.iter().any(|c| c.len() >= 2) {
        f |= flag::MULTI_KMER_NODE;
    }
    if u.len() >= 2 {
        f |= flag::MULTI_NODE;
    }
    f
}

pub fn finish_view<K: Kmer, D: Clone + Debug>(g: BaseGraph<K, D>) -> (DebruijnGraph<K, D>, GraphV<D>) {
    let dg = g.finish_serial();
    let v = view(&dg);
    (dg, v)
}
