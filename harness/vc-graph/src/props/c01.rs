//! C01 - compressed graph is a lossless partition of the input k-mer table.
use super::note;
use vglue::case::{GCase, Part};
use crate::pipe::*;
use debruijn::compression::*;
use debruijn::graph::BaseGraph;
use debruijn::*;
use std::collections::BTreeMap;
use vcommon::families::{catalogue, Seg, Space};
use vcommon::refmodel::*;
use vcommon::report::Report;
use vcommon::seq::*;
use vcommon::sweep::Outcome;
use vglue::oracles::*;
use vglue::*;

pub const EXTRA_FLAGS: [&str; 2] = ["subtables_explored", "unpruned_extension_to_rejected_kmer"];

pub fn plan(quick: bool) -> Vec<Part> {
    let mut v = vec![];
    let (l4, p4, t4) = if quick { (8, 5, 7) } else { (11, 6, 9) };
    let (l5, p5, t5) = if quick { (8, 5, 7) } else { (11, 6, 9) };
    let (l6, p6) = if quick { (8, 0) } else { (11, 6) };
    v.push(Part::new("C01", "R1+RT", 4, Space::singles(4, l4).plus(Space::thresholds(4, t4))).dim("sub", &[if quick { 5 } else { 8 }]));
    v.push(Part::new("C01", "R2", 4, if quick { Space::pairs(4, p4) } else { Space::pairs(4, 5).plus(Space { segs: vec![Seg::Pair(6, 4), Seg::Pair(6, 5)] }) }).dim("sub", &[0]));
    v.push(Part::new("C01", "R1+RT", 5, Space::singles(5, l5).plus(Space::thresholds(5, t5))).dim("sub", &[if quick { 4 } else { 7 }]));
    v.push(Part::new("C01", "R2", 5, if quick { Space::pairs(5, p5) } else { Space { segs: vec![Seg::Pair(5, 5), Seg::Pair(6, 5)] } }).dim("sub", &[0]));
    v.push(Part::new("C01", "R1", 6, Space::singles(6, l6)).dim("sub", &[if quick { 3 } else { 6 }]));
    if p6 > 0 {
        v.push(Part::new("C01", "R2", 6, Space { segs: vec![Seg::Pair(6, 6)] }).strands(&[false]).dim("sub", &[0]));
    }
    if !quick {
        v.push(Part::new("C01", "R3", 4, Space::triples(4, 4)).dim("sub", &[0]));
    }
    for k in BIG_K {
        v.push(Part::new("C01", "catalogue", k, Space { segs: vec![catalogue(k)] }).dim("sub", &[0]));
        v.push(Part::new("C01", "lifted", k, vcommon::families::lifted(k, !quick)).dim("sub", &[0]));
    }
    v
}

pub fn finalize(_tier: &str, rep: &mut Report) {
    rep.rule = "every read set of the listed families x {stranded, unstranded} x entry points {compress_kmers_with_hash on filter_kmers' own (unpruned) table, compress_kmers on the sorted pruned and unpruned slice and on the same rows reversed / rotated, compress_kmers_no_exts on the bare key list, every sub-table of small tables} x reductions {sum, max, order-recording concatenation}; a case is non-trivial if its reference graph has a palindromic k-mer, a self link/hairpin, a branch, a k-mer seen on both strands, a rejected k-mer, a multi-k-mer unitig, a k-mer repeated within a read or several unitigs".into();
    rep.exhaustive = rep.exhaustive; // K=4,5,6 parts are exhaustive within their length bound; catalogue parts are a fixed finite list
    rep.assumptions.push("K >= 8 k-mer types are covered by the structure catalogue only (content not exhaustive)".into());
    rep.assumptions.push("reference model = vcommon::refmodel (string level); boomphf, serde trusted".into());
    for f in ["palindromic_kmer", "self_link_or_hairpin", "branch", "kmer_seen_on_both_strands", "kmer_rejected_by_threshold", "multi_kmer_unitig", "subtables_explored"] {
        rep.floor(&format!("R1+RT@K4:{}", f), 1);
    }
    rep.floor("R1+RT@K5:self_link_or_hairpin", 1);
}

fn base_bookkeeping<K: Kmer, D>(g: &BaseGraph<K, D>) -> R {
    if g.sequences.len() != g.exts.len() || g.exts.len() != g.data.len() || g.len() != g.exts.len() {
        return Err(("base-graph-bookkeeping".into(), format!("sequences/exts/data lengths {} {} {}", g.sequences.len(), g.exts.len(), g.data.len())));
    }
    Ok(())
}

fn sum_expect(t: &Table) -> impl Fn(&[S]) -> u32 + '_ {
    move |ks: &[S]| ks.iter().map(|x| t.e.get(x).map(|e| e.count() as u32).unwrap_or(0)).sum()
}

/// all entry points on one table state; `tab` = crate-side sorted slice, `t` = reference table
fn entry_points<K: Kmer + Send + Sync>(o: &mut Outcome, stage: &str, stranded: bool, tab: &Tab<K, u16>, t: &Table) {
    // (1) from the hash table, reduction = sum
    let h = hash_of(tab);
    let bg = compress_kmers_with_hash(stranded, &sum_spec(), &h);
    note(o, stage, base_bookkeeping(&bg));
    let (_, gv) = finish_view(bg);
    note(o, &format!("{}/with_hash", stage), check_lossless(&gv, t, true));
    note(o, &format!("{}/with_hash/sum", stage), check_payload(&gv, &sum_expect(t), &|d: &u16, e: &u32| *d as u32 == *e));
    // (2) from the sorted slice, reduction = max
    let spec_max = SimpleCompress::new(|a: u16, b: &u16| a.max(*b));
    let (_, gv) = finish_view(compress_kmers(stranded, &spec_max, tab));
    note(o, &format!("{}/slice", stage), check_lossless(&gv, t, true));
    note(o, &format!("{}/slice/max", stage), check_payload(&gv, &|ks: &[S]| ks.iter().map(|x| t.e[x].count() as u32).max().unwrap_or(0), &|d: &u16, e: &u32| *d as u32 == *e));
    // (2b) the slice entry point must not depend on the order of its rows: reversed and rotated tables
    for variant in 0..2 {
        let mut rows: Tab<K, u16> = tab.clone();
        if variant == 0 {
            rows.reverse();
        } else if !rows.is_empty() {
            let r = rows.len() / 2;
            rows.rotate_left(r);
        }
        let (_, gv) = finish_view(compress_kmers(stranded, &sum_spec(), &rows));
        note(o, &format!("{}/slice/permuted-rows", stage), check_lossless(&gv, t, true));
        note(o, &format!("{}/slice/permuted-rows/sum", stage), check_payload(&gv, &sum_expect(t), &|d: &u16, e: &u32| *d as u32 == *e));
    }
    // (3) order-recording reduction: payload = list of k-mer ids
    let ids: BTreeMap<S, u32> = t.e.keys().enumerate().map(|(i, x)| (x.clone(), i as u32)).collect();
    let tab_ids: Tab<K, Vec<u32>> = tab.iter().map(|(k, (e, _))| (*k, (*e, vec![ids[&kstr(k)]]))).collect();
    let spec_cat = SimpleCompress::new(|mut a: Vec<u32>, b: &Vec<u32>| {
        a.extend_from_slice(b);
        a
    });
    let (_, gv) = finish_view(compress_kmers(stranded, &spec_cat, &tab_ids));
    note(o, &format!("{}/slice/ids", stage), check_lossless(&gv, t, true));
    note(
        o,
        &format!("{}/slice/ids", stage),
        check_payload(
            &gv,
            &|ks: &[S]| {
                let mut v: Vec<u32> = ks.iter().map(|x| ids[x]).collect();
                v.sort();
                v
            },
            &|d: &Vec<u32>, e: &Vec<u32>| {
                let mut d = d.clone();
                d.sort();
                d == *e
            },
        ),
    );
    // (4) a reduction whose two arguments play DIFFERENT roles (accumulator, k-mer payload): every k-mer starts
    // with payload 1 and each fold step adds 100 to the accumulator, so a node of n k-mers must carry 1 + 100 (n - 1)
    // in whatever order its k-mers were absorbed
    let tab_one: Tab<K, u32> = tab.iter().map(|(k, (e, _))| (*k, (*e, 1u32))).collect();
    let spec_steps = SimpleCompress::new(|acc: u32, _kmer: &u32| acc + 100);
    for (name, bg) in [("slice", compress_kmers(stranded, &spec_steps, &tab_one)), ("with_hash", compress_kmers_with_hash(stranded, &spec_steps, &hash_of(&tab_one)))] {
        let (_, gv) = finish_view(bg);
        note(o, &format!("{}/{}/fold-steps", stage, name), check_payload(&gv, &|ks: &[S]| 1 + 100 * (ks.len() as u32 - 1), &|d: &u32, e: &u32| d == e));
    }
}

pub fn run<K: Kmer + Send + Sync>(c: &GCase) -> Outcome {
    let mut o = Outcome::default();
    let k = K::k();
    let reads = plain_reads(&c.reads_s());
    let m = models(&reads, k, c.stranded, c.thr);
    o.flags = model_flags(&m);
    if !m.kept.is_closed() {
        o.flags |= flag::SPECIFIC2;
    }
    // the real counting stage
    let (table, _) = count_table::<K>(&reads, c.stranded, c.thr, false);
    let unpruned = sorted_vec(&table);
    // (0) compress the filter's own hash table directly
    {
        let bg = compress_kmers_with_hash(c.stranded, &sum_spec(), &table);
        note(&mut o, "filter-table", base_bookkeeping(&bg));
        let (_, gv) = finish_view(bg);
        note(&mut o, "filter-table/with_hash", check_lossless(&gv, &m.kept, true));
        note(&mut o, "filter-table/with_hash/sum", check_payload(&gv, &sum_expect(&m.kept), &|d: &u16, e: &u32| *d as u32 == *e));
    }
    entry_points::<K>(&mut o, "unpruned", c.stranded, &unpruned, &m.kept);
    let mut pruned = unpruned.clone();
    debruijn::filter::remove_censored_exts(c.stranded, &mut pruned);
    entry_points::<K>(&mut o, "pruned", c.stranded, &pruned, &m.pruned);
    // a join predicate that refuses many joins (ids of the two k-mers must not sum to a multiple of 3):
    // whatever the predicate, no k-mer may be lost or duplicated
    {
        struct IdSpec;
        impl CompressionSpec<u32> for IdSpec {
            fn reduce(&self, a: u32, _b: &u32) -> u32 {
                a
            }
            fn join_test(&self, a: &u32, b: &u32) -> bool {
                (a + b) % 3 != 0
            }
        }
        let tab_ids: Tab<K, u32> = pruned.iter().enumerate().map(|(i, (k, (e, _)))| (*k, (*e, i as u32))).collect();
        let (_, gv) = finish_view(compress_kmers(c.stranded, &IdSpec, &tab_ids));
        note(&mut o, "pruned/slice/refusing-predicate", check_lossless(&gv, &m.pruned, true));
        let (_, gv) = finish_view(compress_kmers_with_hash(c.stranded, &IdSpec, &hash_of(&tab_ids)));
        note(&mut o, "pruned/with_hash/refusing-predicate", check_lossless(&gv, &m.pruned, true));
    }
    // k-mers without extensions
    {
        let keys: Vec<S> = m.kept.e.keys().cloned().collect();
        let t = table_from_keys(&keys, k, c.stranded);
        let kd: Vec<(K, u16)> = unpruned.iter().map(|(k, (_, d))| (*k, *d)).collect();
        let (_, gv) = finish_view(compress_kmers_no_exts(c.stranded, &sum_spec(), &kd));
        note(&mut o, "no_exts", check_lossless(&gv, &t, true));
        note(&mut o, "no_exts/sum", check_payload(&gv, &sum_expect(&m.kept), &|d: &u16, e: &u32| *d as u32 == *e));
    }
    // every sub-table (arbitrary shard) of a small table, extensions untouched
    let sub = c.get("sub") as usize;
    let n = unpruned.len();
    if n >= 2 && n <= sub && o.ok() {
        o.flags |= flag::SPECIFIC;
        for mask in 1u32..(1 << n) - 1 {
            let st: Tab<K, u16> = unpruned.iter().enumerate().filter(|(i, _)| mask >> i & 1 == 1).map(|(_, x)| *x).collect();
            let mut t = m.kept.clone();
            let keep: Vec<S> = st.iter().map(|x| kstr(&x.0)).collect();
            t.retain(&|key, _| keep.contains(key));
            let (_, gv) = finish_view(compress_kmers(c.stranded, &sum_spec(), &st));
            note(&mut o, "subtable", check_lossless(&gv, &t, true));
            note(&mut o, "subtable/sum", check_payload(&gv, &sum_expect(&t), &|d: &u16, e: &u32| *d as u32 == *e));
            if !o.ok() {
                if let Some((_, d)) = o.err.as_mut() {
                    d.push_str(&format!(" (sub-table mask {:b} of sorted table)", mask));
                }
                break;
            }
        }
    }
    o
}
