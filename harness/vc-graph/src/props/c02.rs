//! C02 - nodes are exactly the maximal unbranched paths.
use super::note;
use vglue::case::{GCase, Part};
use crate::pipe::*;
use debruijn::compression::*;
use debruijn::*;
use vcommon::families::{catalogue, Seg, Space};
use vcommon::refmodel::*;
use vcommon::report::Report;
use vcommon::seq::*;
use vcommon::sweep::Outcome;
use vglue::oracles::*;
use vglue::*;

pub const EXTRA_FLAGS: [&str; 2] = ["colour_boundary_inside_unbranched_path", "isolated_cycle"];

pub fn plan(quick: bool) -> Vec<Part> {
    let mut v = vec![];
    let (l4, p4, t4) = if quick { (9, 5, 8) } else { (11, 6, 10) };
    let (l5, p5, t5) = if quick { (8, 5, 7) } else { (11, 6, 9) };
    let (l6, p6) = if quick { (9, 0) } else { (11, 6) };
    v.push(Part::new("C02", "R1+RT", 4, Space::singles(4, l4).plus(Space::thresholds(4, t4))).dim("labels", &[0]));
    v.push(Part::new("C02", "R2", 4, if quick { Space::pairs(4, p4) } else { Space::pairs(4, 5).plus(Space { segs: vec![Seg::Pair(6, 4), Seg::Pair(6, 5)] }) }).dim("labels", &[0, 1]));
    v.push(Part::new("C02", "R1+RT", 5, Space::singles(5, l5).plus(Space::thresholds(5, t5))).dim("labels", &[0]));
    if !quick {
        v.push(Part::new("C02", "R2", 5, Space { segs: vec![Seg::Pair(5, 5), Seg::Pair(6, 5)] }).dim("labels", &[0, 1]));
        let _ = p5;
    }
    v.push(Part::new("C02", "R1", 6, Space::singles(6, l6)).dim("labels", &[0]));
    if p6 > 0 {
        v.push(Part::new("C02", "R2", 6, Space { segs: vec![Seg::Pair(6, 6)] }).dim("labels", &[1]));
    }
    if !quick {
        v.push(Part::new("C02", "R3", 4, Space::triples(4, 4)).dim("labels", &[0, 1]));
    }
    for k in BIG_K {
        v.push(Part::new("C02", "catalogue", k, Space { segs: vec![catalogue(k)] }).dim("labels", &[0, 1]));
        v.push(Part::new("C02", "lifted", k, vcommon::families::lifted(k, !quick)).dim("labels", &[0, 1]));
    }
    v
}

pub fn finalize(_tier: &str, rep: &mut Report) {
    rep.rule = "every read set of the listed families x {stranded, unstranded} x label assignment {all reads one colour, read i has colour i mod 2} on pruned tables; entry points compress_kmers_with_hash / compress_kmers (always-true join) / compress_kmers with the payload-equality predicate / with a harness predicate on per-k-mer ids that refuses a third of the joins / compress_kmers_no_exts / one-k-mer-per-node graph (both node orders) -> compress_graph; oracle = equality of the node partition with the union-find components of joinable links of the reference (is_compressed is never consulted); non-trivial as for C01 plus colour boundaries inside unbranched paths and isolated cycles".into();
    rep.assumptions.push("K >= 8 k-mer types are covered by the structure catalogue only (content not exhaustive)".into());
    for f in ["palindromic_kmer", "self_link_or_hairpin", "branch", "multi_kmer_unitig", "isolated_cycle"] {
        rep.floor(&format!("R1+RT@K4:{}", f), 1);
    }
    rep.floor("R2@K4:colour_boundary_inside_unbranched_path", 1);
}

pub fn run<K: Kmer + Send + Sync>(c: &GCase) -> Outcome {
    let mut o = Outcome::default();
    let k = K::k();
    let mut reads = plain_reads(&c.reads_s());
    let lab = c.get("labels");
    for (i, r) in reads.iter_mut().enumerate() {
        r.label = if lab == 0 { 0 } else { (i % 2) as u64 };
    }
    let m = models(&reads, k, c.stranded, c.thr);
    o.flags = model_flags(&m);
    let t = &m.pruned;
    let always = |_: &S, _: &S| true;
    // isolated cycle: a component in which every k-mer has a joinable link on both sides
    {
        let comps = t.unitigs(&always);
        for comp in comps.iter().filter(|c| c.len() >= 2) {
            let cyc = comp.iter().all(|x| {
                [Side::L, Side::R].iter().all(|s| {
                    t.deg(x, *s) == 1 && {
                        let bs = t.side_bases(x, *s);
                        let b = (0..4u8).find(|b| bs[*b as usize]).unwrap();
                        let (nk, ns) = t.neighbor(x, *s, b);
                        nk != *x && !t.is_pal_key(&nk) && !t.is_pal_key(x) && t.deg(&nk, ns) == 1
                    }
                })
            });
            if cyc {
                o.flags |= flag::SPECIFIC2;
            }
        }
    }
    // count table -> pruned slice
    let (table, _) = count_table::<K>(&reads, c.stranded, c.thr, false);
    let mut pruned = sorted_vec(&table);
    debruijn::filter::remove_censored_exts(c.stranded, &mut pruned);
    let (_, gv) = finish_view(compress_kmers(c.stranded, &sum_spec(), &pruned));
    note(&mut o, "compress_kmers", check_maximal(&gv, t, &always));
    let (_, gv) = finish_view(compress_kmers_with_hash(c.stranded, &sum_spec(), &hash_of(&pruned)));
    note(&mut o, "compress_kmers_with_hash", check_maximal(&gv, t, &always));
    // the re-compression route as an entry point: one k-mer per node (ascending and descending order) -> compress_graph
    for rev in [false, true] {
        let mut bg: debruijn::graph::BaseGraph<K, u16> = debruijn::graph::BaseGraph::new(c.stranded);
        let it: Vec<&(K, (Exts, u16))> = if rev { pruned.iter().rev().collect() } else { pruned.iter().collect() };
        for (km, (e, d)) in it {
            bg.add(km.iter(), *e, *d);
        }
        let g2 = compress_graph(c.stranded, &sum_spec(), bg.finish_serial(), None);
        note(&mut o, if rev { "singletons(desc)->compress_graph" } else { "singletons(asc)->compress_graph" }, check_maximal(&view(&g2), t, &always));
    }
    // k-mers without extensions: reference = all present neighbours
    {
        let keys: Vec<S> = m.kept.e.keys().cloned().collect();
        let tk = table_from_keys(&keys, k, c.stranded);
        let kd: Vec<(K, u16)> = pruned.iter().map(|(k, (_, d))| (*k, *d)).collect();
        let (_, gv) = finish_view(compress_kmers_no_exts(c.stranded, &sum_spec(), &kd));
        note(&mut o, "compress_kmers_no_exts", check_maximal(&gv, &tk, &always));
    }
    // a predicate on per-k-mer ids that refuses about a third of the joins (also inside single reads)
    {
        struct IdSpec;
        impl CompressionSpec<u32> for IdSpec {
            fn reduce(&self, a: u32, _b: &u32) -> u32 {
                a
            }
            fn join_test(&self, a: &u32, b: &u32) -> bool {
                (a + b) % 3 != 0
            }
        }
        let ids: std::collections::BTreeMap<S, u32> = pruned.iter().enumerate().map(|(i, (k, _))| (kstr(k), i as u32)).collect();
        let tab_ids: Tab<K, u32> = pruned.iter().enumerate().map(|(i, (k, (e, _)))| (*k, (*e, i as u32))).collect();
        let id_join = |a: &S, b: &S| (ids[a] + ids[b]) % 3 != 0;
        let (_, gv) = finish_view(compress_kmers(c.stranded, &IdSpec, &tab_ids));
        note(&mut o, "compress_kmers/id-predicate", check_maximal(&gv, t, &id_join));
    }
    // colour predicate
    {
        let (ct, _) = colour_table::<K>(&reads, c.stranded, c.thr);
        let mut cv = sorted_vec(&ct);
        debruijn::filter::remove_censored_exts(c.stranded, &mut cv);
        let same_colour = |a: &S, b: &S| t.e[a].labels() == t.e[b].labels();
        if t.unitigs(&same_colour) != t.unitigs(&always) {
            o.flags |= flag::SPECIFIC;
        }
        {
            let mut rows = cv.clone();
            rows.reverse();
            let (_, gvp) = finish_view(compress_kmers(c.stranded, &ScmapCompress::new(), &rows));
            note(&mut o, "compress_kmers/colour/permuted-rows", check_maximal(&gvp, t, &same_colour));
        }
        let (_, gv) = finish_view(compress_kmers(c.stranded, &ScmapCompress::new(), &cv));
        note(&mut o, "compress_kmers/colour", check_maximal(&gv, t, &same_colour));
        note(&mut o, "compress_kmers/colour/payload", check_payload(&gv, &|ks: &[S]| t.e[&ks[0]].labels(), &|d: &Vec<u64>, e: &Vec<u64>| d == e));
        let (_, gv) = finish_view(compress_kmers_with_hash(c.stranded, &ScmapCompress::new(), &hash_of(&cv)));
        note(&mut o, "compress_kmers_with_hash/colour", check_maximal(&gv, t, &same_colour));
    }
    o
}
