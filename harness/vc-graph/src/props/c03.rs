//! C03 - extensions and edges denote exactly the real adjacencies, symmetrically; pruning is
//! exact; walks along reported edges spell what they walk.
use super::note;
use vglue::case::{GCase, Part};
use crate::pipe::*;
use bit_set::BitSet;
use debruijn::compression::*;
use debruijn::filter::*;
use debruijn::graph::*;
use debruijn::*;
use std::collections::{BTreeMap, BTreeSet};
use std::fmt::Debug;
use vcommon::families::{catalogue, Seg, Space};
use vcommon::refmodel::*;
use vcommon::report::Report;
use vcommon::seq::*;
use vcommon::sweep::Outcome;
use vglue::oracles::*;
use vglue::*;

pub const EXTRA_FLAGS: [&str; 4] = ["unpruned_graph_with_dangling_extensions", "single_shard_graphs_checked", "censor_subsets_explored", "best_path_longer_than_one_node"];

pub fn plan(quick: bool) -> Vec<Part> {
    let mut v = vec![];
    let (l4, p4, t4) = if quick { (8, 5, 7) } else { (10, 5, 9) };
    let (l5, t5) = if quick { (8, 7) } else { (10, 9) };
    let l6 = if quick { 8 } else { 10 };
    let sub = if quick { 5 } else { 8 };
    v.push(Part::new("C03", "R1+RT", 4, Space::singles(4, l4).plus(Space::thresholds(4, t4))).dim("sub", &[sub]).dim("all_links", &[1]));
    v.push(Part::new("C03", "R2", 4, Space::pairs(4, p4)).dim("sub", &[0]).dim("all_links", &[1]));
    v.push(Part::new("C03", "R1+RT", 5, Space::singles(5, l5).plus(Space::thresholds(5, t5))).dim("sub", &[sub - 1]).dim("all_links", &[1]));
    v.push(Part::new("C03", "R1", 6, Space::singles(6, l6)).dim("sub", &[sub - 2]).dim("all_links", &[1]));
    if !quick {
        v.push(Part::new("C03", "R2", 5, Space { segs: vec![Seg::Pair(5, 5), Seg::Pair(6, 5)] }).dim("sub", &[0]).dim("all_links", &[0]));
        v.push(Part::new("C03", "R2", 6, Space { segs: vec![Seg::Pair(6, 6)] }).dim("sub", &[0]).dim("all_links", &[0]));
        v.push(Part::new("C03", "R3", 4, Space::triples(4, 4)).dim("sub", &[0]).dim("all_links", &[1]));
    }
    v.push(Part::new("C03", "handbuilt-node-lists", 4, if quick { Space::singles(4, 6).plus(Space { segs: vec![Seg::Pair(4, 4), Seg::Pair(5, 4)] }) } else { Space::singles(4, 8).plus(Space::pairs(4, 5)) }).dim("handbuilt", &[1]));
    v.push(Part::new("C03", "handbuilt-node-lists", 5, Space::singles(5, if quick { 7 } else { 8 })).dim("handbuilt", &[1]));
    for k in BIG_K {
        v.push(Part::new("C03", "catalogue", k, Space { segs: vec![catalogue(k)] }).dim("sub", &[4]).dim("all_links", &[0]));
        v.push(Part::new("C03", "lifted", k, vcommon::families::lifted(k, !quick)).dim("sub", &[4]).dim("all_links", &[0]));
    }
    v
}

pub fn finalize(_tier: &str, rep: &mut Report) {
    rep.rule = "every read set of the listed families x {stranded, unstranded}; graphs: hand-built node lists (single nodes and pairs of short nodes with every extension bit set: edges, symmetry, get_valid_exts/fix_exts, walks), direct (pruned), re-compressed, unpruned (thresholded table, dangling extensions), every single minimizer shard finished alone; per graph: every node x side x base (extension sets, edge targets/arrival side/flip, symmetry, (K+1)-mer set equality with the reads), find_link for ALL 4^K k-mers x both directions (K<=6; terminal k-mers, their reverse complements and one-base neighbours for K>=8), remove_censored_exts / remove_censored_exts_sharded for every valid-subset (and every valid<=all pair) of small tables, fix_exts/get_valid_exts for every node subset of small graphs, max_path under 4 score x 3 solid modes, max_path_beam, sequence_of_path on every edge walk of <= 3 nodes".into();
    rep.assumptions.push("K >= 8 k-mer types are covered by the structure catalogue only (content not exhaustive)".into());
    rep.assumptions.push("max_path_beam: only walk validity is judged (its cycle-terminated paths repeat a node by design)".into());
    for f in ["palindromic_kmer", "self_link_or_hairpin", "branch", "unpruned_graph_with_dangling_extensions", "single_shard_graphs_checked", "censor_subsets_explored", "best_path_longer_than_one_node"] {
        rep.floor(&format!("R1+RT@K4:{}", f), 1);
    }
}

type Ans = Option<EdgeV>;
fn ans(x: Option<(usize, Dir, bool)>) -> Ans {
    x.map(|(i, d, f)| (i, side_of(d), f))
}

/// graph-level oracles shared by all graph variants
fn graph_checks<K: Kmer, D: Clone + Debug>(o: &mut Outcome, stage: &str, g: &DebruijnGraph<K, D>, t: &Table, closed: bool, all_links: bool) -> GraphV<D> {
    let gv = view(g);
    note(o, &format!("{}/adjacency", stage), check_adjacency(&gv, t, closed));
    // (K+1)-mer set: resolvable edges + intra-node steps == links of the reference between k-mers of this graph
    let present: BTreeSet<S> = (0..gv.nodes.len()).flat_map(|i| gv.kmers(i)).collect();
    let want = t.kp1_set(&|x| present.contains(x));
    let got = graph_kp1(&gv);
    o.transitions += 1;
    if got != want {
        let extra: Vec<String> = got.difference(&want).map(|x| ascii(x)).collect();
        let lack: Vec<String> = want.difference(&got).map(|x| ascii(x)).collect();
        o.fail("kplus1-set-differs", format!("[{}] (K+1)-mers spelled by edges/steps but not in reference: {:?}; in reference but not spelled: {:?}", stage, extra, lack));
    }
    // link lookups
    let idx = gv.link_index();
    let k = K::k();
    let mut probe = |w: &[u8], o: &mut Outcome| {
        for dir in [Side::L, Side::R] {
            let got = ans(g.find_link(mk::<K>(w), dir_of(dir)));
            if let Err((sig, det)) = check_find_link(&idx, w, dir, got) {
                o.fail(&sig, format!("[{}] {}", stage, det));
            }
        }
    };
    if all_links && k <= 6 {
        for x in 0..count_strings(k) {
            probe(&nth_string(k, x), o);
        }
        o.transitions += 2 * count_strings(k);
    } else {
        let mut qs: BTreeSet<S> = BTreeSet::new();
        for i in 0..gv.nodes.len() {
            for w in [gv.first(i).to_vec(), gv.last(i).to_vec()] {
                qs.insert(rc(&w));
                for b in 0..4u8 {
                    qs.insert(ext_str(&w, Side::L, b));
                    qs.insert(ext_str(&w, Side::R, b));
                }
                let mut w2 = w.clone();
                w2[k / 2] = (w2[k / 2] + 1) % 4;
                qs.insert(w2);
                qs.insert(w);
            }
        }
        o.transitions += 2 * qs.len() as u64;
        for w in qs {
            probe(&w, o);
        }
    }
    gv
}

fn walk_checks<K: Kmer, D: Clone + Debug>(o: &mut Outcome, stage: &str, g: &DebruijnGraph<K, D>, gv: &GraphV<D>) {
    let k = K::k();
    let spelled_ok = |path: &[(usize, Dir)]| -> Result<(), String> {
        let sq: S = g.sequence_of_path(path.iter()).iter().collect();
        let mut want: Vec<S> = vec![];
        for (n, d) in path {
            let ns = match d {
                Dir::Left => gv.nodes[*n].seq.clone(),
                Dir::Right => rc(&gv.nodes[*n].seq),
            };
            want.extend(windows(&ns, k));
        }
        if windows(&sq, k) != want {
            return Err(format!("sequence_of_path({:?}) = {} does not spell the walked nodes' k-mers in order", path, ascii(&sq)));
        }
        Ok(())
    };
    let step_ok = |a: (usize, Dir), b: (usize, Dir)| -> bool {
        let out = match a.1 {
            Dir::Left => Side::R,
            Dir::Right => Side::L,
        };
        let arrive = match b.1 {
            Dir::Left => Side::L,
            Dir::Right => Side::R,
        };
        let sides: Vec<Side> = if gv.is_pal_single(a.0) { vec![Side::L, Side::R] } else { vec![out] };
        sides.iter().any(|s| gv.nodes[a.0].edges(*s).iter().any(|(t, ts, _)| *t == b.0 && (gv.is_pal_single(b.0) || *ts == arrive)))
    };
    // every walk of up to 3 nodes along reported edges
    if gv.nodes.len() <= 24 {
        for i in 0..gv.nodes.len() {
            for d0 in [Dir::Left, Dir::Right] {
                let mut stack: Vec<Vec<(usize, Dir)>> = vec![vec![(i, d0)]];
                while let Some(p) = stack.pop() {
                    o.transitions += 1;
                    if let Err(e) = spelled_ok(&p) {
                        o.fail("walk-misspelled", format!("[{}] {}", stage, e));
                        return;
                    }
                    if p.len() < 3 {
                        let (a, da) = *p.last().unwrap();
                        let out = match da {
                            Dir::Left => Side::R,
                            Dir::Right => Side::L,
                        };
                        for (t, ts, _) in gv.nodes[a].edges(out) {
                            let mut q = p.clone();
                            q.push((*t, dir_of(*ts)));
                            stack.push(q);
                        }
                    }
                }
            }
        }
    }
    // best-path queries (payload must be convertible to a score; done by the callers via closures)
    let _ = step_ok;
}

fn best_paths<K: Kmer>(o: &mut Outcome, stage: &str, g: &DebruijnGraph<K, u16>, gv: &GraphV<u16>) {
    let k = K::k();
    let step_ok = |a: (usize, Dir), b: (usize, Dir)| -> bool {
        let out = match a.1 {
            Dir::Left => Side::R,
            Dir::Right => Side::L,
        };
        let arrive = side_of(b.1);
        let sides: Vec<Side> = if gv.is_pal_single(a.0) { vec![Side::L, Side::R] } else { vec![out] };
        sides.iter().any(|s| gv.nodes[a.0].edges(*s).iter().any(|(t, ts, _)| *t == b.0 && (gv.is_pal_single(b.0) || *ts == arrive)))
    };
    let spelled = |path: &[(usize, Dir)]| -> bool {
        let sq: S = g.sequence_of_path(path.iter()).iter().collect();
        let mut want: Vec<S> = vec![];
        for (n, d) in path {
            let ns = match d {
                Dir::Left => gv.nodes[*n].seq.clone(),
                Dir::Right => rc(&gv.nodes[*n].seq),
            };
            want.extend(windows(&ns, k));
        }
        windows(&sq, k) == want
    };
    for smode in 0..4 {
        for solid in 0..3 {
            let lens: Vec<usize> = gv.nodes.iter().map(|n| n.seq.len()).collect();
            let _ = &lens;
            let path = g.max_path(
                |d| match smode {
                    0 => *d as f32,
                    1 => 1.0,
                    2 => -(*d as f32),
                    _ => (*d % 3) as f32,
                },
                |d| match solid {
                    0 => true,
                    1 => false,
                    _ => *d >= 2,
                },
            );
            o.transitions += 1;
            if g.len() > 0 && path.is_empty() {
                o.fail("best-path-empty", format!("[{}] max_path returned no node on a non-empty graph", stage));
            }
            if path.len() > 1 {
                o.flags |= flag::SPECIFIC4;
            }
            let mut seen = BTreeSet::new();
            for (n, _) in &path {
                if !seen.insert(*n) {
                    o.fail("best-path-repeats-node", format!("[{}] max_path(score {}, solid {}) = {:?}", stage, smode, solid, path));
                }
            }
            for w in path.windows(2) {
                if !step_ok(w[0], w[1]) {
                    o.fail("best-path-not-a-walk", format!("[{}] max_path(score {}, solid {}) = {:?}: {:?} -> {:?} is not a reported edge", stage, smode, solid, path, w[0], w[1]));
                }
            }
            if !path.is_empty() && !spelled(&path) {
                o.fail("best-path-misspelled", format!("[{}] max_path(score {}, solid {}) = {:?}", stage, smode, solid, path));
            }
        }
    }
    // beam search: walk validity only
    if g.len() > 0 {
        for beam in [1usize, 3, 8] {
            let path = g.max_path_beam(beam, |d| *d as f32, |_| true);
            o.transitions += 1;
            // a beam path may only repeat a node as its very last entry (the step that closes a cycle ends the path)
            {
                let mut seen = BTreeSet::new();
                for (pos, (n, _)) in path.iter().enumerate() {
                    if !seen.insert(*n) && pos + 1 != path.len() {
                        o.fail("beam-path-repeats-node", format!("[{}] max_path_beam({}) = {:?}: node {} is visited again before the end of the path", stage, beam, path, n));
                    }
                }
            }
            if !path.is_empty() && !spelled(&path) {
                o.fail("beam-path-misspelled", format!("[{}] max_path_beam({}) = {:?}: sequence_of_path does not spell the walked nodes' k-mers", stage, beam, path));
            }
            for w in path.windows(2) {
                if !step_ok(w[0], w[1]) {
                    o.fail("beam-path-not-a-walk", format!("[{}] max_path_beam({}) = {:?}: {:?} -> {:?} is not a reported edge", stage, beam, path, w[0], w[1]));
                }
            }
        }
    }
}

/// hand-built node lists (not produced by the crate's compressors), every extension bit set
fn run_handbuilt<K: Kmer + Send + Sync>(c: &GCase) -> Outcome {
    let mut o = Outcome::default();
    let k = K::k();
    let nodes = c.reads_s();
    let firsts: BTreeSet<&[u8]> = nodes.iter().map(|n| &n[..k]).collect();
    let lasts: BTreeSet<&[u8]> = nodes.iter().map(|n| &n[n.len() - k..]).collect();
    if firsts.len() != nodes.len() || lasts.len() != nodes.len() {
        return o; // not a valid BaseGraph: end k-mers are perfect-hash keys and must be distinct
    }
    // a valid graph holds every (canonical) k-mer at most once
    let all: Vec<S> = nodes.iter().flat_map(|n| windows(n, k)).map(|w| canon(&w, c.stranded).0).collect();
    if all.iter().collect::<BTreeSet<_>>().len() != all.len() {
        return o;
    }
    if nodes.iter().any(|n| !c.stranded && n.len() > k && (is_pal(&n[..k]) || is_pal(&n[n.len() - k..]))) {
        o.flags |= flag::PAL;
    }
    let mut bg: BaseGraph<K, u16> = BaseGraph::new(c.stranded);
    for (i, n) in nodes.iter().enumerate() {
        bg.add(n.iter(), Exts::new(0xff), i as u16);
    }
    let mut g = bg.finish_serial();
    let gv = view(&g);
    let idx = gv.link_index();
    for i in 0..gv.nodes.len() {
        let mut want_bits = ([false; 4], [false; 4]);
        for side in [Side::L, Side::R] {
            let mut want: Vec<Vec<EdgeV>> = vec![];
            for b in 0..4u8 {
                let a = idx.answers(&ext_str(gv.term(i, side), side, b), side);
                if !a.is_empty() {
                    match side {
                        Side::L => want_bits.0[b as usize] = true,
                        Side::R => want_bits.1[b as usize] = true,
                    }
                    want.push(a);
                }
            }
            let got = gv.nodes[i].edges(side);
            o.transitions += 1;
            if !vglue::oracles::match_edges(got, &want) {
                o.fail("wrong-edge", format!("[handbuilt] node {} = {} side {:?}: edges {:?}, acceptable {:?}", i, ascii(&gv.nodes[i].seq), side, got, want));
            }
            for (tgt, tside, _) in got {
                let sides: Vec<Side> = if gv.is_pal_single(*tgt) { vec![Side::L, Side::R] } else { vec![*tside] };
                if !sides.iter().any(|s| gv.nodes[*tgt].edges(*s).iter().any(|(b, bs, _)| *b == i && (gv.is_pal_single(i) || *bs == side))) {
                    o.fail("asymmetric-edge", format!("[handbuilt] node {} side {:?} reaches node {} side {:?} but not vice versa", i, side, tgt, tside));
                }
            }
        }
        // pruning to the resolvable extensions
        let (gl, gr) = decode_exts(g.get_valid_exts(i, None).val);
        if (gl, gr) != want_bits {
            o.fail("get-valid-exts-wrong", format!("[handbuilt] node {} = {}: valid extensions L{:?} R{:?}, resolvable L{:?} R{:?}", i, ascii(&gv.nodes[i].seq), gl, gr, want_bits.0, want_bits.1));
        }
    }
    g.fix_exts(None);
    let gv2 = view(&g);
    walk_checks(&mut o, "handbuilt", &g, &gv2);
    o
}

pub fn run<K: Kmer + Send + Sync>(c: &GCase) -> Outcome {
    if c.get("handbuilt") == 1 {
        return run_handbuilt::<K>(c);
    }
    let mut o = Outcome::default();
    let k = K::k();
    let reads = plain_reads(&c.reads_s());
    let m = models(&reads, k, c.stranded, c.thr);
    o.flags = model_flags(&m);
    let all_links = c.get("all_links") == 1;
    let (table, all_kmers) = count_table::<K>(&reads, c.stranded, c.thr, true);
    let unpruned = sorted_vec(&table);
    let mut pruned = unpruned.clone();
    remove_censored_exts(c.stranded, &mut pruned);

    // ---- direct, pruned ----
    let g = compress_kmers(c.stranded, &sum_spec(), &pruned).finish_serial();
    let gv = graph_checks(&mut o, "direct", &g, &m.pruned, true, all_links);
    {
        // edges must also account for exactly the (K+1)-mers observed in the reads between retained k-mers
        let want = kp1_from_reads(&reads, k, c.stranded, &|x| m.kept.e.contains_key(x));
        o.transitions += 1;
        if graph_kp1(&gv) != want {
            o.fail("kplus1-set-differs-from-reads", format!("[direct] graph spells {:?}, reads contain {:?}", graph_kp1(&gv).iter().map(|x| ascii(x)).collect::<Vec<_>>(), want.iter().map(|x| ascii(x)).collect::<Vec<_>>()));
        }
    }
    walk_checks(&mut o, "direct", &g, &gv);
    best_paths(&mut o, "direct", &g, &gv);

    // ---- fix_exts / get_valid_exts for every node subset of a small graph ----
    let sub = c.get("sub") as usize;
    let nn = gv.nodes.len();
    if nn >= 1 && nn <= sub {
        o.flags |= flag::SPECIFIC3;
        let idx = gv.link_index();
        for mask in 0u32..(1 << nn) {
            let mut bs = BitSet::with_capacity(nn);
            for i in 0..nn {
                if mask >> i & 1 == 1 {
                    bs.insert(i);
                }
            }
            for i in 0..nn {
                let (gl, gr) = decode_exts(g.get_valid_exts(i, Some(&bs)).val);
                let mut wl = [false; 4];
                let mut wr = [false; 4];
                for b in 0..4u8 {
                    for (side, bases, w) in [(Side::L, &gv.nodes[i].l, &mut wl), (Side::R, &gv.nodes[i].r, &mut wr)] {
                        if bases[b as usize] {
                            let a = idx.answers(&ext_str(gv.term(i, side), side, b), side);
                            // kept iff it resolves to a node of the subset (any acceptable resolution)
                            w[b as usize] = a.iter().any(|(t, _, _)| mask >> t & 1 == 1);
                        }
                    }
                }
                o.transitions += 1;
                if (gl, gr) != (wl, wr) {
                    o.fail("get-valid-exts-wrong", format!("[direct] node {} = {} valid-node mask {:b}: got L{:?} R{:?}, want L{:?} R{:?}", i, ascii(&gv.nodes[i].seq), mask, gl, gr, wl, wr));
                }
            }
        }
    }

    // ---- fix_exts(Some(valid nodes)) for every node subset: afterwards EVERY node (valid or not) keeps exactly the
    //      extensions that resolve to a valid node ----
    if nn >= 1 && nn <= sub {
        let idx = gv.link_index();
        for mask in 0u32..(1 << nn) {
            let mut bs = BitSet::with_capacity(nn);
            for i in 0..nn {
                if mask >> i & 1 == 1 {
                    bs.insert(i);
                }
            }
            let mut gg = compress_kmers(c.stranded, &sum_spec(), &pruned).finish_serial();
            gg.fix_exts(Some(&bs));
            let after = view(&gg);
            o.transitions += 1;
            for i in 0..nn {
                let mut wl = [false; 4];
                let mut wr = [false; 4];
                for b in 0..4u8 {
                    for (side, bases, w) in [(Side::L, &gv.nodes[i].l, &mut wl), (Side::R, &gv.nodes[i].r, &mut wr)] {
                        if bases[b as usize] {
                            w[b as usize] = idx.answers(&ext_str(gv.term(i, side), side, b), side).iter().any(|(t, _, _)| mask >> t & 1 == 1);
                        }
                    }
                }
                if (after.nodes[i].l, after.nodes[i].r) != (wl, wr) {
                    o.fail("fix-exts-wrong", format!("[direct] fix_exts(valid-node mask {:b}): node {} = {} keeps L{:?} R{:?}, want L{:?} R{:?}", mask, i, ascii(&gv.nodes[i].seq), after.nodes[i].l, after.nodes[i].r, wl, wr));
                }
            }
            // answers must come from the graph that is asked, as it is NOW: (a) the same (node, side) query
            // alternating between the original and the pruned graph; (b) query - mutate - same query: after
            // fix_exts(Some(empty set)) the edge list just reported must be gone, and after the extension sets are
            // written back (public field) it must be back
            if nn <= 3 || mask + 1 == (1 << nn) {
                let q = |gr: &DebruijnGraph<K, u16>, i: usize, side: Side| -> Vec<EdgeV> { gr.get_node(i).edges(dir_of(side)).into_iter().map(|(t, s, f)| (t, side_of(s), f)).collect() };
                let saved = gg.base.exts.clone();
                let empty = BitSet::with_capacity(nn);
                for i in 0..nn {
                    for side in [Side::L, Side::R] {
                        o.transitions += 1;
                        let (a1, b1, a2) = (q(&g, i, side), q(&gg, i, side), q(&g, i, side));
                        if &a1 != gv.nodes[i].edges(side) || &a2 != gv.nodes[i].edges(side) || &b1 != after.nodes[i].edges(side) {
                            o.fail("edge-query-depends-on-history", format!("[direct] node {} side {:?}: asking the original and the fix_exts(mask {:b}) graph alternately gives {:?} / {:?} / {:?}; asked on their own they report {:?} and {:?}", i, side, mask, a1, b1, a2, gv.nodes[i].edges(side), after.nodes[i].edges(side)));
                        }
                        let _asked_just_before = q(&gg, i, side);
                        gg.fix_exts(Some(&empty));
                        let gone = q(&gg, i, side);
                        gg.base.exts = saved.clone();
                        let back = q(&gg, i, side);
                        if !gone.is_empty() || &back != after.nodes[i].edges(side) {
                            o.fail("edge-query-depends-on-history", format!("[direct] node {} side {:?} of the fix_exts(mask {:b}) graph: edges {:?}; after fix_exts(no valid node) {:?} (want none); after writing the extension sets back {:?}", i, side, mask, after.nodes[i].edges(side), gone, back));
                        }
                    }
                }
            }
            // a SECOND pruning on the pruned graph: fix_exts(None) must change nothing (everything left resolves),
            // fix_exts(Some(mask2)) must leave exactly what resolves into mask AND mask2 (every mask2 for <= 3 nodes)
            let mut seconds: Vec<Option<u32>> = vec![None];
            if nn <= 3 {
                seconds.extend((0u32..(1 << nn)).map(Some));
            }
            for second in seconds {
                let mut g2 = if second.is_none() { None } else { Some(compress_kmers(c.stranded, &sum_spec(), &pruned).finish_serial()) };
                let gx: &mut DebruijnGraph<K, u16> = match g2.as_mut() {
                    Some(x) => {
                        x.fix_exts(Some(&bs));
                        x
                    }
                    None => &mut gg,
                };
                let both = match second {
                    None => {
                        gx.fix_exts(None);
                        mask
                    }
                    Some(m2) => {
                        let mut b2 = BitSet::with_capacity(nn);
                        for i in 0..nn {
                            if m2 >> i & 1 == 1 {
                                b2.insert(i);
                            }
                        }
                        gx.fix_exts(Some(&b2));
                        mask & m2
                    }
                };
                let after2 = view(gx);
                o.transitions += 1;
                for i in 0..nn {
                    let mut wl = [false; 4];
                    let mut wr = [false; 4];
                    for b in 0..4u8 {
                        for (side, bases, w) in [(Side::L, &gv.nodes[i].l, &mut wl), (Side::R, &gv.nodes[i].r, &mut wr)] {
                            if bases[b as usize] {
                                w[b as usize] = idx.answers(&ext_str(gv.term(i, side), side, b), side).iter().any(|(t, _, _)| both >> t & 1 == 1);
                            }
                        }
                    }
                    if (after2.nodes[i].l, after2.nodes[i].r) != (wl, wr) {
                        o.fail("fix-exts-sequence-wrong", format!("[direct] fix_exts(mask {:b}) then fix_exts({:?}): node {} = {} keeps L{:?} R{:?}, want L{:?} R{:?}", mask, second, i, ascii(&gv.nodes[i].seq), after2.nodes[i].l, after2.nodes[i].r, wl, wr));
                    }
                }
            }
        }
    }

    // ---- re-compressed ----
    let g2 = compress_graph(c.stranded, &sum_spec(), g, None);
    let gv2 = graph_checks(&mut o, "recompressed", &g2, &m.pruned, true, false);
    walk_checks(&mut o, "recompressed", &g2, &gv2);

    // ---- graph built from the bare key list (compress_kmers_no_exts derives the extensions itself):
    //      extensions and edges must be exactly the adjacencies among the listed k-mers ----
    {
        let keys: Vec<S> = m.kept.e.keys().cloned().collect();
        let tk = table_from_keys(&keys, k, c.stranded);
        let kd: Vec<(K, u16)> = pruned.iter().map(|(k, (_, d))| (*k, *d)).collect();
        let g4 = compress_kmers_no_exts(c.stranded, &sum_spec(), &kd).finish_serial();
        let gv4 = graph_checks(&mut o, "no_exts", &g4, &tk, true, false);
        walk_checks(&mut o, "no_exts", &g4, &gv4);
    }

    // ---- unpruned (thresholded table whose extensions may point at rejected k-mers) ----
    if !m.kept.is_closed() {
        o.flags |= flag::SPECIFIC;
        let g3 = compress_kmers_with_hash(c.stranded, &sum_spec(), &table).finish_serial();
        graph_checks(&mut o, "unpruned", &g3, &m.kept, false, all_links);
    }

    // ---- every minimizer shard finished on its own (extensions point into other shards) ----
    {
        let mut shards: BTreeMap<u32, Vec<Read>> = BTreeMap::new();
        for r in &reads {
            for (b, e, v) in debruijn::msp::msp_sequence::<debruijn::kmer::Kmer2, DnaBytes>(k, &r.seq, None, !c.stranded) {
                let (bl, br) = decode_exts(e.val);
                shards.entry(b).or_default().push(Read { seq: v.0, bl, br, label: r.label });
            }
        }
        if shards.len() >= 2 {
            o.flags |= flag::SPECIFIC2;
            for (_, sr) in shards.iter() {
                let st = Table::from_reads(sr, k, c.stranded);
                let (tab, _) = count_table::<K>(sr, c.stranded, 1, false);
                let gs = compress_kmers_with_hash(c.stranded, &sum_spec(), &tab).finish_serial();
                graph_checks(&mut o, "single-shard", &gs, &st, false, false);
            }
        }
    }

    // ---- table-level pruning operations on every subset of a small table ----
    let n = unpruned.len();
    if n >= 1 && n <= sub {
        o.flags |= flag::SPECIFIC3;
        let keys: Vec<S> = unpruned.iter().map(|x| kstr(&x.0)).collect();
        // the crate-side `all_kmers` must be exactly the sorted distinct observed k-mers (C05 judges that);
        // here it only serves as the "seen in this shard" list
        let all_keys: Vec<S> = all_kmers.iter().map(|x| kstr(x)).collect();
        for mask in 0u32..(1 << n) {
            let valid: Tab<K, u16> = unpruned.iter().enumerate().filter(|(i, _)| mask >> i & 1 == 1).map(|(_, x)| *x).collect();
            let vkeys: BTreeSet<S> = keys.iter().enumerate().filter(|(i, _)| mask >> i & 1 == 1).map(|(_, x)| x.clone()).collect();
            // unsharded: keep bit <=> target in valid
            let mut got = valid.clone();
            remove_censored_exts(c.stranded, &mut got);
            let mut want = m.kept.clone();
            want.retain(&|x, _| vkeys.contains(x));
            want.prune(&|_| false);
            o.transitions += 1;
            if let Err(e) = same_table(&got, &want) {
                o.fail("remove-censored-exts-wrong", format!("valid subset mask {:b} of {:?}: {}", mask, keys.iter().map(|x| ascii(x)).collect::<Vec<_>>(), e));
                break;
            }
            // sharded: keep bit <=> target in valid OR target not in `all`
            // all = every observed k-mer of the input (superset of valid)
            let mut got = valid.clone();
            remove_censored_exts_sharded(c.stranded, &mut got, &all_kmers);
            let mut want = m.kept.clone();
            want.retain(&|x, _| vkeys.contains(x));
            want.prune(&|x| !all_keys.iter().any(|y| y.as_slice() == x));
            o.transitions += 1;
            if let Err(e) = same_table(&got, &want) {
                o.fail("remove-censored-exts-sharded-wrong", format!("valid subset mask {:b}, all = observed k-mers: {}", mask, e));
                break;
            }
            // all = valid itself: nothing outside valid is known, so nothing may be removed
            let only: Vec<K> = valid.iter().map(|x| x.0).collect();
            let mut got = valid.clone();
            remove_censored_exts_sharded(c.stranded, &mut got, &only);
            let mut want = m.kept.clone();
            want.retain(&|x, _| vkeys.contains(x));
            o.transitions += 1;
            if let Err(e) = same_table(&got, &want) {
                o.fail("remove-censored-exts-sharded-wrong", format!("valid subset mask {:b}, all = valid: {}", mask, e));
                break;
            }
        }
    }
    o
}

fn same_table<K: Kmer>(got: &Tab<K, u16>, want: &Table) -> Result<(), String> {
    if got.len() != want.e.len() {
        return Err(format!("{} entries, reference {}", got.len(), want.e.len()));
    }
    for (kmer, (e, _)) in got {
        let key = kstr(kmer);
        let en = want.e.get(&key).ok_or_else(|| format!("{} not in reference", ascii(&key)))?;
        let (l, r) = decode_exts(e.val);
        let ok = if want.is_pal_key(&key) { or_bases(&r, &comp_bases(&l)) == or_bases(&en.r, &comp_bases(&en.l)) } else { l == en.l && r == en.r };
        if !ok {
            return Err(format!("{}: extensions L{:?} R{:?}, reference L{:?} R{:?}", ascii(&key), l, r, en.l, en.r));
        }
    }
    Ok(())
}
