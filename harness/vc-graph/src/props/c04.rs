//! C04 - sharded assembly equals unsharded assembly.
use super::note;
use vglue::case::{GCase, Part};
use crate::pipe::*;
use debruijn::compression::*;
use debruijn::dna_string::DnaString;
use debruijn::filter::*;
use debruijn::graph::*;
use debruijn::kmer::*;
use debruijn::vmer::*;
use debruijn::*;
use std::collections::{BTreeMap, BTreeSet};
use vcommon::families::{catalogue, Seg, Space};
use vcommon::refmodel::*;
use vcommon::report::Report;
use vcommon::seq::*;
use vcommon::sweep::Outcome;
use vglue::oracles::*;
use vglue::*;

pub const EXTRA_FLAGS: [&str; 4] = ["two_or_more_shards", "unitig_spans_shards", "shard_junction_at_palindrome_or_self_link", "four_or_more_shards"];

pub const NPERM: i64 = 6; // 0 = default (None), 1 = reversed, 2 = rotated by 1, 3 = rotated by half, 4,5 = fixed LCG permutations
pub const NCONT: i64 = 5; // DnaBytes, DnaString, Lmer1, Lmer2, Lmer3

#[derive(Clone, Copy, Debug)]
pub struct Cfg {
    pub p: usize,
    pub perm: i64,
    pub cont: i64,
    pub desc: bool,
    pub prune: bool,
    pub mrc: bool,
}
pub fn p_list(k: usize) -> Vec<usize> {
    match k {
        4 => vec![2, 3],
        5 => vec![2, 3, 4],
        6 => vec![2, 3, 4, 5],
        8 => vec![5, 6],
        _ => vec![5, 8],
    }
}
/// configuration ids: `full` = whole cross product, else the star around the base configuration
/// mode 2 = whole cross product, 1 = star around the base configuration, 0 = mini star (base + one far corner per dimension)
pub fn cfg_ids(k: usize, mode: u8) -> Vec<i64> {
    let np = p_list(k).len() as i64;
    let enc = |p: i64, perm: i64, cont: i64, desc: i64, prune: i64, mrc: i64| ((((p * NPERM + perm) * NCONT + cont) * 2 + desc) * 2 + prune) * 2 + mrc;
    let mut v = vec![];
    if mode == 2 {
        for id in 0..np * NPERM * NCONT * 8 {
            v.push(id);
        }
    } else if mode == 0 {
        v.push(enc(0, 0, 0, 0, 1, 1));
        v.push(enc(np - 1, 0, 0, 0, 1, 1));
        v.push(enc(0, 4, 0, 0, 1, 1));
        v.push(enc(np - 1, 1, 1, 1, 0, 0));
        v.push(enc(0, 5, 2, 1, 0, 1));
    } else {
        v.push(enc(0, 0, 0, 0, 1, 1));
        for p in 1..np {
            v.push(enc(p, 0, 0, 0, 1, 1));
        }
        for perm in 1..NPERM {
            v.push(enc(0, perm, 0, 0, 1, 1));
            v.push(enc(np - 1, perm, 0, 0, 1, 1));
        }
        for cont in 1..NCONT {
            v.push(enc(0, 0, cont, 0, 1, 1));
        }
        v.push(enc(0, 0, 0, 1, 1, 1));
        v.push(enc(0, 0, 0, 0, 0, 1));
        v.push(enc(0, 0, 0, 0, 1, 0));
        v.push(enc(np - 1, 1, 1, 1, 0, 0));
    }
    v
}
pub fn decode(k: usize, id: i64) -> Cfg {
    let mut x = id;
    let mrc = x % 2 == 1;
    x /= 2;
    let prune = x % 2 == 1;
    x /= 2;
    let desc = x % 2 == 1;
    x /= 2;
    let cont = x % NCONT;
    x /= NCONT;
    let perm = x % NPERM;
    x /= NPERM;
    Cfg { p: p_list(k)[x as usize], perm, cont, desc, prune, mrc }
}
pub fn permutation(p: usize, which: i64) -> Option<Vec<usize>> {
    let n = 1usize << (2 * p);
    match which {
        0 => None,
        1 => Some((0..n).rev().collect()),
        2 => Some((0..n).map(|i| (i + 1) % n).collect()),
        3 => Some((0..n).map(|i| (i + n / 2) % n).collect()),
        w => Some(Lcg(0xC0FFEE + w as u64 + vcommon::report::seed() as u64 * 7919).perm(n)),
    }
}

pub fn plan(quick: bool) -> Vec<Part> {
    let mut v = vec![];
    let mk = |name: &str, k: usize, sp: Space, mode: u8| Part::new("C04", name, k, sp).dim("cfg", &cfg_ids(k, mode));
    if quick {
        v.push(mk("R1+RT/star", 4, Space::singles(4, 7).plus(Space::thresholds(4, 7)), 1));
        v.push(mk("R2/mini", 4, Space { segs: vec![Seg::Pair(4, 4), Seg::Pair(5, 4)] }.plus(Space::with_rc(4, 7)), 0));
        v.push(mk("R1/full", 4, Space::singles(4, 5), 2));
        v.push(mk("R1+RT/star", 5, Space::singles(5, 7).plus(Space::thresholds(5, 7)), 1));
        v.push(mk("R1/mini", 5, Space::singles(8, 8), 0));
        v.push(mk("R1/star", 6, Space::singles(6, 7), 1));
        v.push(mk("R1/mini", 6, Space::singles(8, 8), 0));
    } else {
        v.push(mk("R1+RT/star", 4, Space::singles(4, 10).plus(Space::thresholds(4, 9)), 1));
        v.push(mk("R2/star", 4, Space::pairs(4, 5).plus(Space::with_rc(4, 9)), 1));
        v.push(mk("R2/mini", 4, Space { segs: vec![Seg::Pair(6, 4), Seg::Pair(6, 5)] }, 0));
        v.push(mk("R1/full", 4, Space::singles(4, 8), 2));
        v.push(mk("R2/full", 4, Space::pairs(4, 4), 2));
        v.push(mk("R1+RT/star", 5, Space::singles(5, 10).plus(Space::thresholds(5, 9)), 1));
        v.push(mk("R2/mini", 5, Space { segs: vec![Seg::Pair(5, 5), Seg::Pair(6, 5)] }, 0));
        v.push(mk("R1/full", 5, Space::singles(5, 7), 2));
        v.push(mk("R1/star", 6, Space::singles(6, 10), 1));
        v.push(mk("R1/full", 6, Space::singles(6, 8), 2));
        v.push(mk("R3/mini", 4, Space::triples(4, 4), 0));
    }
    for k in BIG_K {
        v.push(mk(if quick { "catalogue/star" } else { "catalogue/full" }, k, Space { segs: vec![catalogue(k)] }, if quick { 1 } else { 2 }));
        if !quick || LIFT_QUICK_K.contains(&k) {
            // (the thorough tier crosses the quick-size lifted family with the star of configurations for every wide type;
            // the deep family x full cross product would be ~10^9 pipeline runs)
            v.push(mk("lifted/star", k, vcommon::families::lifted(k, false), 1));
        }
    }
    v
}

pub fn finalize(_tier: &str, rep: &mut Report) {
    rep.rule = "every read set of the listed families x {stranded, unstranded} x configurations (minimizer type P in 2..K-1, permutation in {default, reversed, 2 rotations, 2 fixed LCG}, piece container in {DnaBytes, DnaString, Lmer1, Lmer2, Lmer3}, shard order asc/desc, per-shard remove_censored_exts_sharded on/off, msp rc flag); 'star' parts vary one dimension at a time around a base configuration, 'mini' parts use 5 far-apart configurations over the largest families, 'full' parts take the complete cross product over a smaller family; pipeline = msp_sequence -> per-bucket filter_kmers -> compress_kmers_with_hash -> BaseGraph::combine -> finish -> compress_graph; oracle = reference unitigs/payload/adjacency AND the crate's own direct pipeline".into();
    rep.assumptions.push("unstranded runs use msp rc=true (with rc=false the two strands of a k-mer may go to different shards, which is outside the property's precondition)".into());
    rep.assumptions.push("K >= 8 k-mer types are covered by the structure catalogue only (content not exhaustive)".into());
    for f in ["two_or_more_shards", "unitig_spans_shards", "shard_junction_at_palindrome_or_self_link", "palindromic_kmer", "kmer_rejected_by_threshold"] {
        rep.floor(&format!("R1+RT/star@K4:{}", f), 1);
    }
    rep.floor("R1+RT/star@K5:four_or_more_shards", 1);
}

/// the real sharded pipeline, generic over k-mer type, minimizer type and piece container
fn sharded<K: Kmer + Send + Sync, P: Kmer, V: Vmer + Clone>(reads: &[Read], stranded: bool, thr: usize, cfg: &Cfg, nshards: &mut usize, shard_of: &mut BTreeMap<S, u32>) -> DebruijnGraph<K, u16> {
    let perm = permutation(P::k(), cfg.perm);
    let mrc = if stranded { cfg.mrc } else { true };
    let mut shards: BTreeMap<u32, Vec<(V, Exts, u64)>> = BTreeMap::new();
    for r in reads {
        for (b, e, v) in debruijn::msp::msp_sequence::<P, V>(K::k(), &r.seq, perm.as_deref(), mrc) {
            shards.entry(b).or_default().push((v, e, r.label));
        }
    }
    *nshards = shards.len();
    let mut graphs: Vec<BaseGraph<K, u16>> = vec![];
    for (b, seqs) in shards.iter() {
        let (t, all) = filter_kmers::<K, V, _, _, _>(seqs, &Box::new(CountFilter::new(thr)), stranded, true, 1);
        for (kmer, _, _) in t.iter() {
            shard_of.insert(kstr(kmer), *b);
        }
        let g = if cfg.prune {
            let mut v = sorted_vec(&t);
            remove_censored_exts_sharded(stranded, &mut v, &all);
            compress_kmers(stranded, &sum_spec(), &v)
        } else {
            compress_kmers_with_hash(stranded, &sum_spec(), &t)
        };
        graphs.push(g);
    }
    if cfg.desc {
        graphs.reverse();
    }
    let comb = if graphs.is_empty() { BaseGraph::new(stranded) } else { BaseGraph::combine(graphs.into_iter()) };
    // remembered for the caller: the combined graph must keep the strandedness of its parts (key [255] is no k-mer)
    shard_of.insert(vec![255u8], comb.stranded as u32);
    let dg = comb.finish();
    compress_graph(stranded, &sum_spec(), dg, None)
}

fn sharded_kp<K: Kmer + Send + Sync, P: Kmer>(reads: &[Read], stranded: bool, thr: usize, cfg: &Cfg, n: &mut usize, so: &mut BTreeMap<S, u32>) -> DebruijnGraph<K, u16> {
    let need = 2 * K::k() - P::k();
    match cfg.cont {
        1 => sharded::<K, P, DnaString>(reads, stranded, thr, cfg, n, so),
        2 if need <= Lmer1::max_len() => sharded::<K, P, Lmer1>(reads, stranded, thr, cfg, n, so),
        3 if need <= Lmer2::max_len() => sharded::<K, P, Lmer2>(reads, stranded, thr, cfg, n, so),
        4 if need <= Lmer3::max_len() => sharded::<K, P, Lmer3>(reads, stranded, thr, cfg, n, so),
        _ => sharded::<K, P, DnaBytes>(reads, stranded, thr, cfg, n, so),
    }
}

pub fn sharded_any<K: Kmer + Send + Sync>(reads: &[Read], stranded: bool, thr: usize, cfg: &Cfg, n: &mut usize, so: &mut BTreeMap<S, u32>) -> DebruijnGraph<K, u16> {
    match cfg.p {
        2 => sharded_kp::<K, Kmer2>(reads, stranded, thr, cfg, n, so),
        3 => sharded_kp::<K, Kmer3>(reads, stranded, thr, cfg, n, so),
        4 => sharded_kp::<K, Kmer4>(reads, stranded, thr, cfg, n, so),
        5 => sharded_kp::<K, Kmer5>(reads, stranded, thr, cfg, n, so),
        6 => sharded_kp::<K, Kmer6>(reads, stranded, thr, cfg, n, so),
        8 => sharded_kp::<K, Kmer8>(reads, stranded, thr, cfg, n, so),
        p => panic!("no minimizer type for p={}", p),
    }
}

/// partition -> payload map of a view
pub fn payload_map(gv: &GraphV<u16>) -> BTreeMap<BTreeSet<S>, u16> {
    (0..gv.nodes.len()).map(|i| (gv.kmers(i).into_iter().collect(), gv.nodes[i].data)).collect()
}

pub fn run<K: Kmer + Send + Sync>(c: &GCase) -> Outcome {
    let mut o = Outcome::default();
    let k = K::k();
    let reads = plain_reads(&c.reads_s());
    let cfg = decode(k, c.get("cfg"));
    let m = models(&reads, k, c.stranded, c.thr);
    o.flags = model_flags(&m);
    let t = &m.pruned;
    let always = |_: &S, _: &S| true;
    // sharded route
    let mut nshards = 0;
    let mut shard_of = BTreeMap::new();
    let g = sharded_any::<K>(&reads, c.stranded, c.thr, &cfg, &mut nshards, &mut shard_of);
    let gv = view(&g);
    o.transitions += 1;
    let comb_flag = shard_of.remove(&vec![255u8]).map(|x| x == 1);
    if gv.stranded != c.stranded || comb_flag != Some(c.stranded) {
        o.fail("strandedness-lost", format!("the combined graph reports stranded = {:?} and the re-compressed graph {}, the shards were built with stranded = {}", comb_flag, gv.stranded, c.stranded));
    }
    if nshards >= 2 {
        o.flags |= flag::SPECIFIC;
    }
    if nshards >= 4 {
        o.flags |= flag::SPECIFIC4;
    }
    for comp in t.unitigs(&always) {
        let ss: BTreeSet<u32> = comp.iter().filter_map(|x| shard_of.get(x).copied()).collect();
        if ss.len() >= 2 {
            o.flags |= flag::SPECIFIC2;
        }
    }
    for (a, b) in t.links(&|_| true) {
        if shard_of.get(&a.0) != shard_of.get(&b.0) && (t.is_pal_key(&a.0) || t.is_pal_key(&b.0)) || (a.0 == b.0 && nshards >= 2) {
            o.flags |= flag::SPECIFIC3;
        }
    }
    // (i) against the reference
    note(&mut o, "sharded/lossless", check_lossless(&gv, t, true));
    note(&mut o, "sharded/maximal", check_maximal(&gv, t, &always));
    note(&mut o, "sharded/payload", check_payload(&gv, &|ks: &[S]| ks.iter().map(|x| t.e[x].count() as u32).sum::<u32>(), &|d: &u16, e: &u32| *d as u32 == *e));
    note(&mut o, "sharded/adjacency", check_adjacency(&gv, t, true));
    // (ii) against the crate's own one-pass pipeline
    let (table, _) = count_table::<K>(&reads, c.stranded, c.thr, false);
    let mut pruned = sorted_vec(&table);
    remove_censored_exts(c.stranded, &mut pruned);
    let gd = compress_kmers(c.stranded, &sum_spec(), &pruned).finish();
    let gdv = view(&gd);
    o.transitions += 1;
    if payload_map(&gv) != payload_map(&gdv) {
        o.fail("sharded-differs-from-direct", format!("partition/payload of the sharded graph differs from the one-pass graph: {} vs {} nodes", gv.nodes.len(), gdv.nodes.len()));
    }
    if graph_kp1(&gv) != graph_kp1(&gdv) {
        o.fail("sharded-differs-from-direct", "adjacency ((K+1)-mer set) of the sharded graph differs from the one-pass graph".to_string());
    }
    o
}
