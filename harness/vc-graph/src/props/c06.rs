//! C06 - strand symmetry when unstranded, strand separation when stranded.
use super::c04::{decode, payload_map, sharded_any};
use super::note;
use vglue::case::{GCase, Part};
use crate::pipe::*;
use debruijn::compression::*;
use debruijn::filter::*;
use debruijn::*;
use std::collections::{BTreeMap, BTreeSet};
use vcommon::families::{catalogue, Space};
use vcommon::refmodel::*;
use vcommon::report::Report;
use vcommon::seq::*;
use vcommon::sweep::Outcome;
use vglue::oracles::*;
use vglue::*;

pub const EXTRA_FLAGS: [&str; 4] = ["flip_changes_which_strand_is_observed", "read_shares_kmer_with_own_reverse_complement", "stranded_table_holds_kmer_and_its_rc", "stranded_unpruned_graph_with_dangling_extensions"];

pub fn plan(quick: bool) -> Vec<Part> {
    let mut v = vec![];
    let (l4, p4, t4) = if quick { (8, 5, 7) } else { (10, 5, 9) };
    let (l5, t5) = if quick { (8, 7) } else { (10, 9) };
    let l6 = if quick { 8 } else { 10 };
    v.push(Part::new("C06", "R1+RT", 4, Space::singles(4, l4).plus(Space::thresholds(4, t4))));
    v.push(Part::new("C06", "R2", 4, Space::pairs(4, p4)));
    v.push(Part::new("C06", "R1+RT", 5, Space::singles(5, l5).plus(Space::thresholds(5, t5))));
    v.push(Part::new("C06", "R1", 6, Space::singles(6, l6)));
    if !quick {
        v.push(Part::new("C06", "R2", 5, Space { segs: vec![vcommon::families::Seg::Pair(5, 5), vcommon::families::Seg::Pair(6, 5)] }));
        v.push(Part::new("C06", "R3", 4, Space::triples(4, 4)));
    }
    for k in BIG_K {
        v.push(Part::new("C06", "catalogue", k, Space { segs: vec![catalogue(k)] }));
        v.push(Part::new("C06", "lifted", k, vcommon::families::lifted(k, !quick)));
    }
    v
}

pub fn finalize(_tier: &str, rep: &mut Report) {
    rep.rule = "every read set of the listed families. Every table is additionally computed under two multi-pass memory budgets (3 and 5 passes) (hook MEM_UNIT) and must not change. Unstranded: ALL 2^n choices of which reads to reverse-complement (n <= 3; catalogue sets with more reads: every single flip and all-flipped): k-mer table (keys, counts, extension sets of non-palindromic keys, merged sets of palindromic keys) and the partition/payload/adjacency of the direct, re-compressed and sharded graphs must be identical to the unflipped run and every key must equal min(k-mer, rc). Stranded: table keys/links must be exactly the forward windows/(K+1)-mers (also on the unpruned thresholded graph, whose dangling extensions must not resolve through the other strand), and the tables of a read and of its reverse complement share exactly the windows the two strings share".into();
    rep.assumptions.push("K >= 8 k-mer types are covered by the structure catalogue only (content not exhaustive)".into());
    for f in ["flip_changes_which_strand_is_observed", "palindromic_kmer", "kmer_seen_on_both_strands", "stranded_table_holds_kmer_and_its_rc"] {
        rep.floor(&format!("R1+RT@K4:{}", f), 1);
    }
}

/// table + three graph variants of one read set, reduced to comparable plain data
struct Obs {
    table: Vec<(S, u8, u16)>,
    /// the list of ALL distinct k-mers filter_kmers reports on request (before thresholding)
    all: Vec<S>,
    graphs: Vec<(String, BTreeMap<BTreeSet<S>, u16>, BTreeSet<S>, GraphV<u16>)>,
}

fn observe<K: Kmer + Send + Sync>(reads: &[Read], stranded: bool, thr: usize, multipass_too: bool) -> Obs {
    let (table, all_k) = count_table::<K>(reads, stranded, thr, true);
    let all: Vec<S> = all_k.iter().map(|x| kstr(x)).collect();
    let unpruned = sorted_vec(&table);
    let tv: Vec<(S, u8, u16)> = unpruned.iter().map(|(k, (e, d))| (kstr(k), e.val, *d)).collect();
    // the same table under multi-pass memory budgets (hook MEM_UNIT = 1 byte): must not depend on the pass plan
    if multipass_too {
        use debruijn::verif_hooks::MEM_UNIT;
        let nk: usize = reads.iter().map(|r| r.seq.len().saturating_sub(K::k() - 1)).sum();
        let kmer_mem = (nk * std::mem::size_of::<(K, u64)>()).max(1);
        let old = MEM_UNIT.with(|c| c.replace(1));
        let mut multipass = vec![];
        for budget in [(kmer_mem / 2).max(1), (kmer_mem / 4).max(1)] {
            let t = filter_kmers::<K, _, _, _, _>(&to_seqs(reads), &Box::new(CountFilter::new(thr)), stranded, false, budget).0;
            let v: Vec<(S, u8, u16)> = sorted_vec(&t).iter().map(|(k, (e, d))| (kstr(k), e.val, *d)).collect();
            multipass.push(v);
        }
        MEM_UNIT.with(|c| c.set(old));
        if multipass.iter().any(|v| *v != tv) {
            // encode the disagreement as an impossible table so that every comparison downstream flags it
            return Obs { table: vec![(vec![9], 0xff, u16::MAX)], all: vec![], graphs: vec![] };
        }
    }
    let mut pruned = unpruned.clone();
    remove_censored_exts(stranded, &mut pruned);
    let mut graphs = vec![];
    let g = compress_kmers(stranded, &sum_spec(), &pruned).finish_serial();
    let gv = view(&g);
    graphs.push(("direct".to_string(), payload_map(&gv), graph_kp1(&gv), gv));
    let g2 = compress_graph(stranded, &sum_spec(), g, None);
    let gv = view(&g2);
    graphs.push(("recompressed".to_string(), payload_map(&gv), graph_kp1(&gv), gv));
    let cfg = decode(K::k(), 0b011); // base configuration: smallest P, default permutation, DnaBytes, ascending, pruned, rc on
    let (mut n, mut so) = (0, BTreeMap::new());
    let g3 = sharded_any::<K>(reads, stranded, thr, &cfg, &mut n, &mut so);
    let gv = view(&g3);
    graphs.push(("sharded".to_string(), payload_map(&gv), graph_kp1(&gv), gv));
    Obs { table: tv, all, graphs }
}

pub fn run<K: Kmer + Send + Sync>(c: &GCase) -> Outcome {
    let mut o = Outcome::default();
    let k = K::k();
    let rs = c.reads_s();
    let reads = plain_reads(&rs);
    let m = models(&reads, k, c.stranded, c.thr);
    o.flags = model_flags(&m);
    let base = observe::<K>(&reads, c.stranded, c.thr, !c.stranded);
    o.transitions += 7;
    if base.table.first().map(|x| x.0 == vec![9u8]).unwrap_or(false) {
        o.fail("table-depends-on-pass-plan", "the k-mer table of this read set differs between the one-pass run and a multi-pass memory budget".to_string());
        return o;
    }
    if !c.stranded {
        // every key is the lexicographic minimum of the k-mer and its reverse complement
        for key in base.table.iter().map(|x| &x.0).chain(base.all.iter()) {
            if *key > rc(key) {
                o.fail("key-not-canonical", format!("reported k-mer {} is larger than its reverse complement", ascii(key)));
            }
        }
        // graphs agree with the (strand-symmetric) reference
        for (name, _, _, gv) in &base.graphs {
            note(&mut o, &format!("{}/lossless", name), check_lossless(gv, &m.pruned, true));
            note(&mut o, &format!("{}/maximal", name), check_maximal(gv, &m.pruned, &|_, _| true));
            note(&mut o, &format!("{}/adjacency", name), check_adjacency(gv, &m.pruned, true));
        }
        let n = rs.len();
        let masks: Vec<u32> = if n <= 3 {
            (1..(1u32 << n)).collect()
        } else {
            let mut v: Vec<u32> = (0..n).map(|i| 1u32 << i).collect();
            v.push((1u32 << n) - 1);
            v
        };
        for mask in masks {
            let fl: Vec<S> = rs.iter().enumerate().map(|(i, r)| if mask >> i & 1 == 1 { rc(r) } else { r.clone() }).collect();
            if fl != rs {
                o.flags |= flag::SPECIFIC;
            }
            let other = observe::<K>(&plain_reads(&fl), false, c.thr, true);
            o.transitions += 7;
            if other.table.first().map(|x| x.0 == vec![9u8]).unwrap_or(false) {
                o.fail("table-depends-on-pass-plan", format!("flip mask {:b}: the k-mer table of the flipped read set differs between the one-pass run and a multi-pass memory budget", mask));
                continue;
            }
            if other.table.len() != base.table.len() {
                o.fail("table-changes-under-flip", format!("flip mask {:b}: {} keys vs {}", mask, other.table.len(), base.table.len()));
                continue;
            }
            if other.all != base.all {
                o.fail("all-kmers-change-under-flip", format!("flip mask {:b}: the list of all distinct k-mers is {:?}, for the unflipped reads {:?}", mask, other.all.iter().map(|x| ascii(x)).collect::<Vec<_>>(), base.all.iter().map(|x| ascii(x)).collect::<Vec<_>>()));
                continue;
            }
            for (a, b) in base.table.iter().zip(other.table.iter()) {
                if a.0 != b.0 || a.2 != b.2 {
                    o.fail("table-changes-under-flip", format!("flip mask {:b}: entry {} count {} vs {} count {}", mask, ascii(&a.0), a.2, ascii(&b.0), b.2));
                }
                let (al, ar) = decode_exts(a.1);
                let (bl, br) = decode_exts(b.1);
                let same = if is_pal(&a.0) { or_bases(&ar, &comp_bases(&al)) == or_bases(&br, &comp_bases(&bl)) } else { a.1 == b.1 };
                if !same {
                    o.fail("extensions-change-under-flip", format!("flip mask {:b}: k-mer {} extensions {:#010b} vs {:#010b}", mask, ascii(&a.0), a.1, b.1));
                }
            }
            for (x, y) in base.graphs.iter().zip(other.graphs.iter()) {
                if x.1 != y.1 {
                    o.fail("graph-changes-under-flip", format!("flip mask {:b}: {} graph partition/payload differs ({} vs {} nodes)", mask, x.0, x.1.len(), y.1.len()));
                }
                if x.2 != y.2 {
                    o.fail("graph-changes-under-flip", format!("flip mask {:b}: {} graph adjacency differs", mask, x.0));
                }
            }
        }
    } else {
        // stranded: exactly the forward windows and forward links
        let want_keys: BTreeSet<S> = m.kept.e.keys().cloned().collect();
        let got_keys: BTreeSet<S> = base.table.iter().map(|x| x.0.clone()).collect();
        if got_keys != want_keys {
            o.fail("stranded-keys-not-forward-windows", format!("table keys {:?}, forward windows {:?}", got_keys.iter().map(|x| ascii(x)).collect::<Vec<_>>(), want_keys.iter().map(|x| ascii(x)).collect::<Vec<_>>()));
        }
        if got_keys.iter().any(|x| *x != rc(x) && got_keys.contains(&rc(x))) {
            o.flags |= flag::SPECIFIC3;
        }
        let want_links = kp1_from_reads(&reads, k, true, &|x| m.kept.e.contains_key(x));
        for (name, _, kp1, gv) in &base.graphs {
            if *kp1 != want_links {
                o.fail("stranded-links-not-forward", format!("{} graph spells {:?}, forward (K+1)-mers {:?}", name, kp1.iter().map(|x| ascii(x)).collect::<Vec<_>>(), want_links.iter().map(|x| ascii(x)).collect::<Vec<_>>()));
            }
            note(&mut o, &format!("{}/lossless", name), check_lossless(gv, &m.pruned, true));
            note(&mut o, &format!("{}/maximal", name), check_maximal(gv, &m.pruned, &|_, _| true));
            note(&mut o, &format!("{}/adjacency", name), check_adjacency(gv, &m.pruned, true));
        }
        // thresholded table with dangling extensions: a stranded graph must never resolve an extension through the
        // reverse complement (no edge with the flip flag, no link lookup answered on the other strand)
        if !m.kept.is_closed() {
            let (table, _) = count_table::<K>(&reads, true, c.thr, false);
            let gu = compress_kmers_with_hash(true, &sum_spec(), &table).finish_serial();
            let gvu = view(&gu);
            note(&mut o, "unpruned/adjacency", check_adjacency(&gvu, &m.kept, false));
            for (i, n) in gvu.nodes.iter().enumerate() {
                if n.ledges.iter().chain(n.redges.iter()).any(|e| e.2) {
                    o.fail("stranded-graph-reports-rc-link", format!("unpruned stranded graph: node {} = {} has an edge flagged as strand-flipping: L{:?} R{:?}", i, ascii(&n.seq), n.ledges, n.redges));
                }
            }
            if k <= 6 {
                for w in all_strings(k) {
                    for d in [Dir::Left, Dir::Right] {
                        if let Some((_, _, true)) = gu.find_link(mk::<K>(&w), d) {
                            o.fail("stranded-graph-reports-rc-link", format!("unpruned stranded graph: find_link({}, {:?}) answers through the reverse complement", ascii(&w), d));
                        }
                    }
                }
            }
            o.flags |= flag::SPECIFIC4;
        }
        // a read and its reverse complement: tables share exactly the shared windows
        for r in &rs {
            let a = observe::<K>(&plain_reads(&[r.clone()]), true, 1, false);
            let b = observe::<K>(&plain_reads(&[rc(r)]), true, 1, false);
            o.transitions += 8;
            let ka: BTreeSet<S> = a.table.iter().map(|x| x.0.clone()).collect();
            let kb: BTreeSet<S> = b.table.iter().map(|x| x.0.clone()).collect();
            let wa: BTreeSet<S> = windows(r, k).into_iter().collect();
            let wb: BTreeSet<S> = windows(&rc(r), k).into_iter().collect();
            let shared: BTreeSet<S> = wa.intersection(&wb).cloned().collect();
            if !shared.is_empty() {
                o.flags |= flag::SPECIFIC2;
            }
            if ka.intersection(&kb).cloned().collect::<BTreeSet<S>>() != shared || ka != wa || kb != wb {
                o.fail("stranded-strands-identified", format!("read {}: stranded tables of the read and of its reverse complement share {:?}, the strings share {:?}", ascii(r), ka.intersection(&kb).map(|x| ascii(x)).collect::<Vec<_>>(), shared.iter().map(|x| ascii(x)).collect::<Vec<_>>()));
            }
        }
    }
    o
}
