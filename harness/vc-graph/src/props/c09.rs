//! C09 - graph re-compression and node censoring are exact.
use super::c04::payload_map;
use super::note;
use vglue::case::{GCase, Part};
use crate::pipe::*;
use debruijn::compression::*;
use debruijn::filter::*;
use debruijn::graph::*;
use debruijn::*;
use std::collections::BTreeSet;
use std::fmt::Debug;
use vcommon::families::{catalogue, Seg, Space};
use vcommon::refmodel::*;
use vcommon::report::Report;
use vcommon::seq::*;
use vcommon::sweep::Outcome;
use vglue::oracles::*;
use vglue::*;

pub const EXTRA_FLAGS: [&str; 4] = ["partial_start_graphs_explored", "censor_subsets_explored", "censoring_merges_formerly_branching_paths", "colour_boundary"];

pub fn plan(quick: bool) -> Vec<Part> {
    let mut v = vec![];
    let (l4, p4, t4) = if quick { (7, 4, 6) } else { (8, 4, 7) };
    let (l5, t5) = if quick { (7, 6) } else { (8, 7) };
    let l6 = if quick { 7 } else { 8 };
    let (part, cens) = if quick { (5, 4) } else { (6, 5) };
    let d = |p: Part| p.dim("part", &[part]).dim("cens", &[cens]);
    v.push(d(Part::new("C09", "R1+RT", 4, Space::singles(4, l4).plus(Space::thresholds(4, t4)))));
    v.push(Part::new("C09", "R2", 4, if quick { Space { segs: vec![Seg::Pair(5, 4)] } } else { Space::pairs(4, p4) }).dim("part", &[part]).dim("cens", &[if quick { 2 } else { cens }]));
    v.push(d(Part::new("C09", "R1+RT", 5, Space::singles(5, l5).plus(Space::thresholds(5, t5)))));
    v.push(d(Part::new("C09", "R1", 6, Space::singles(6, l6))));
    if !quick {
        v.push(d(Part::new("C09", "R2", 4, Space { segs: vec![Seg::Pair(5, 4)] })));
        v.push(d(Part::new("C09", "R2", 5, Space { segs: vec![Seg::Pair(5, 5)] })));
    }
    for k in BIG_K {
        v.push(d(Part::new("C09", "catalogue", k, Space { segs: vec![catalogue(k)] })));
        if !quick || LIFT_QUICK_K.contains(&k) {
            v.push(d(Part::new("C09", "lifted", k, vcommon::families::lifted(k, !quick))));
        }
    }
    v
}

pub fn finalize(_tier: &str, rep: &mut Report) {
    rep.rule = "every read set of the listed families x {stranded, unstranded} x start graphs {one k-mer per node, fully compressed, EVERY 2-partition of the k-mers of small tables compressed separately and combined in both orders (a few fixed partitions for larger tables)} x reductions {sum, colour/payload-equality, a non-reflexive predicate}; unsorted / repeated censor lists; is_compressed() must agree that the result is compressed; for each: compress_graph(None) == reference unitigs/payload/adjacency == direct route, second application changes nothing but order/orientation; for start graphs with few nodes EVERY censor subset: surviving k-mers, unitigs of the surviving sub-table, payload fold, no extension to a removed k-mer".into();
    rep.assumptions.push("K >= 8 k-mer types are covered by the structure catalogue only (content not exhaustive)".into());
    rep.assumptions.push("built without debug assertions (the crate's own debug_assert!(is_compressed) is not relied upon)".into());
    for f in ["partial_start_graphs_explored", "censor_subsets_explored", "censoring_merges_formerly_branching_paths", "palindromic_kmer", "self_link_or_hairpin"] {
        rep.floor(&format!("R1+RT@K4:{}", f), 1);
    }
    rep.floor("R2@K4:colour_boundary", 1);
}

/// all oracles of a re-compressed graph against a reference table
fn full_check<D: Clone + Debug>(o: &mut Outcome, stage: &str, gv: &GraphV<D>, t: &Table, join: &dyn Fn(&S, &S) -> bool) {
    note(o, &format!("{}/lossless", stage), check_lossless(gv, t, true));
    note(o, &format!("{}/maximal", stage), check_maximal(gv, t, join));
    note(o, &format!("{}/adjacency", stage), check_adjacency(gv, t, true));
}

fn sum_payload(o: &mut Outcome, stage: &str, gv: &GraphV<u16>, t: &Table) {
    note(o, &format!("{}/payload", stage), check_payload(gv, &|ks: &[S]| ks.iter().map(|x| t.e[x].count() as u32).sum::<u32>(), &|d: &u16, e: &u32| *d as u32 == *e));
}

fn singletons<K: Kmer, D: Clone>(stranded: bool, tab: &Tab<K, D>) -> BaseGraph<K, D> {
    let mut bg: BaseGraph<K, D> = BaseGraph::new(stranded);
    for (k, (e, d)) in tab {
        bg.add(k.iter(), *e, d.clone());
    }
    bg
}

fn partial<K: Kmer, D: Clone + Debug, S2: CompressionSpec<D>>(stranded: bool, spec: &S2, tab: &Tab<K, D>, mask: u64, swap: bool) -> BaseGraph<K, D> {
    let a: Tab<K, D> = tab.iter().enumerate().filter(|(i, _)| mask >> (i % 64) & 1 == 1).map(|(_, x)| x.clone()).collect();
    let b: Tab<K, D> = tab.iter().enumerate().filter(|(i, _)| mask >> (i % 64) & 1 == 0).map(|(_, x)| x.clone()).collect();
    let ga = compress_kmers(stranded, spec, &a);
    let gb = compress_kmers(stranded, spec, &b);
    let v = if swap { vec![gb, ga] } else { vec![ga, gb] };
    BaseGraph::combine(v.into_iter())
}

pub fn run<K: Kmer + Send + Sync>(c: &GCase) -> Outcome {
    let mut o = Outcome::default();
    let k = K::k();
    let mut reads = plain_reads(&c.reads_s());
    for (i, r) in reads.iter_mut().enumerate() {
        r.label = (i % 2) as u64;
    }
    let m = models(&reads, k, c.stranded, c.thr);
    o.flags = model_flags(&m);
    let t = &m.pruned;
    let always = |_: &S, _: &S| true;
    let (table, _) = count_table::<K>(&reads, c.stranded, c.thr, false);
    let mut pruned = sorted_vec(&table);
    remove_censored_exts(c.stranded, &mut pruned);
    let n = pruned.len();
    let spec = sum_spec();
    let direct = payload_map(&view(&compress_kmers(c.stranded, &spec, &pruned).finish_serial()));

    // start graph builders (index -> BaseGraph), so that each use gets a fresh copy
    let part_limit = c.get("part") as usize;
    let mut starts: Vec<(String, Box<dyn Fn() -> BaseGraph<K, u16> + '_>)> = vec![];
    starts.push(("singletons".into(), Box::new(|| singletons(c.stranded, &pruned))));
    starts.push(("compressed".into(), Box::new(|| compress_kmers(c.stranded, &spec, &pruned))));
    if n >= 2 {
        let masks: Vec<u64> = if n <= part_limit {
            (1..(1u64 << n) - 1).collect()
        } else {
            let all = if n >= 64 { u64::MAX } else { (1u64 << n) - 1 };
            vec![0x5555_5555_5555_5555 & all, (1u64 << (n / 2).min(63)) - 1, 0x6DB6_DB6D_B6DB_6DB6 & all, 1]
        };
        if n <= part_limit {
            o.flags |= flag::SPECIFIC;
        }
        for mask in masks {
            if n > 64 && mask == 0 {
                continue;
            }
            for swap in [false, true] {
                let pr = &pruned;
                let sp = &spec;
                starts.push((format!("partial(mask {:b}, swap {})", mask, swap), Box::new(move || partial(c.stranded, sp, pr, mask, swap))));
            }
        }
    }
    let cens_limit = c.get("cens") as usize;
    for (name, build) in &starts {
        let g0 = build().finish_serial();
        let nn = g0.len();
        let g1 = compress_graph(c.stranded, &spec, g0, None);
        let gv1 = view(&g1);
        o.transitions += 1;
        if let Some(pair) = g1.is_compressed(&spec) {
            o.fail("is-compressed-false-alarm", format!("[{}] is_compressed() reports nodes {:?} as mergeable on the re-compressed graph (the crate's own debug assertion would fire)", name, pair));
        }
        full_check(&mut o, &format!("{}->recompress", name), &gv1, t, &always);
        sum_payload(&mut o, &format!("{}->recompress", name), &gv1, t);
        o.transitions += 1;
        if payload_map(&gv1) != direct {
            o.fail("recompress-differs-from-direct", format!("[{}] re-compressed graph differs from compressing the k-mer table directly", name));
        }
        // idempotence
        let before = (payload_map(&gv1), graph_kp1(&gv1));
        let g2 = compress_graph(c.stranded, &spec, g1, None);
        let gv2 = view(&g2);
        o.transitions += 1;
        if (payload_map(&gv2), graph_kp1(&gv2)) != before {
            o.fail("recompress-not-idempotent", format!("[{}] a second compress_graph changed the partition, payloads or adjacency", name));
        }
        // every censor subset
        if nn >= 1 && nn <= cens_limit {
            o.flags |= flag::SPECIFIC2;
            let node_kmers: Vec<Vec<S>> = {
                let g = build().finish_serial();
                let gv = view(&g);
                (0..nn).map(|i| gv.kmers(i)).collect()
            };
            for mask in 1u32..(1 << nn) {
                let cens: Vec<usize> = (0..nn).filter(|i| mask >> i & 1 == 1).collect();
                let keep: BTreeSet<S> = (0..nn).filter(|i| mask >> i & 1 == 0).flat_map(|i| node_kmers[i].clone()).collect();
                let mut t2 = t.clone();
                t2.retain(&|x, _| keep.contains(x));
                t2.prune(&|_| false);
                if t2.unitigs(&always).iter().any(|comp| t.unitigs(&always).iter().all(|c0| !comp.is_subset(c0))) {
                    o.flags |= flag::SPECIFIC3;
                }
                let gc = compress_graph(c.stranded, &spec, build().finish_serial(), Some(cens));
                let gvc = view(&gc);
                let st = format!("{}->censor(mask {:b})", name, mask);
                full_check(&mut o, &st, &gvc, &t2, &always);
                sum_payload(&mut o, &st, &gvc, &t2);
                if !o.ok() {
                    return o;
                }
            }
        }
        if !o.ok() {
            return o;
        }
    }

    // a NON-reflexive predicate (equal payloads never join) on a graph whose payloads are all equal: whatever
    // the predicate is evaluated on (adjacent nodes or the payload folded so far), nothing may be joined, so
    // compress_graph must consult the caller's predicate even for equal payloads
    {
        struct NeverEqual;
        impl CompressionSpec<u16> for NeverEqual {
            fn reduce(&self, a: u16, _b: &u16) -> u16 {
                a
            }
            fn join_test(&self, a: &u16, b: &u16) -> bool {
                a != b
            }
        }
        let never = |_: &S, _: &S| false;
        let flat: Tab<K, u16> = pruned.iter().map(|(k, (e, _))| (*k, (*e, 1u16))).collect();
        let g1 = compress_graph(c.stranded, &NeverEqual, singletons(c.stranded, &flat).finish_serial(), None);
        note(&mut o, "singletons->recompress/non-reflexive-predicate", check_maximal(&view(&g1), t, &never));
        note(&mut o, "singletons->recompress/non-reflexive-predicate", check_lossless(&view(&g1), t, true));
    }
    // the censor list is a set: order and repetitions must not matter
    {
        let g0 = singletons(c.stranded, &pruned).finish_serial();
        let nn = g0.len();
        if nn >= 3 {
            let cens_sets: Vec<Vec<usize>> = vec![vec![nn - 1, 0], vec![nn / 2, nn - 1, nn / 2, 0], vec![1, 0, 1]];
            for cs in cens_sets {
                let gv0 = view(&g0);
                let keep: BTreeSet<S> = (0..nn).filter(|i| !cs.contains(i)).flat_map(|i| gv0.kmers(i)).collect();
                let mut t2 = t.clone();
                t2.retain(&|x, _| keep.contains(x));
                t2.prune(&|_| false);
                let gc = compress_graph(c.stranded, &spec, singletons(c.stranded, &pruned).finish_serial(), Some(cs.clone()));
                let st = format!("singletons->censor(list {:?})", cs);
                full_check(&mut o, &st, &view(&gc), &t2, &always);
            }
        }
    }
    // colour reduction (payload-equality join predicate)
    {
        let (ct, _) = colour_table::<K>(&reads, c.stranded, c.thr);
        let mut cv = sorted_vec(&ct);
        remove_censored_exts(c.stranded, &mut cv);
        let same_colour = |a: &S, b: &S| t.e[a].labels() == t.e[b].labels();
        if t.unitigs(&same_colour) != t.unitigs(&always) {
            o.flags |= flag::SPECIFIC4;
        }
        let cspec: ScmapCompress<Vec<u64>> = ScmapCompress::new();
        for (name, bg) in [("singletons/colour", singletons(c.stranded, &cv)), ("compressed/colour", compress_kmers(c.stranded, &cspec, &cv))] {
            let g1 = compress_graph(c.stranded, &cspec, bg.finish_serial(), None);
            let gv1 = view(&g1);
            full_check(&mut o, &format!("{}->recompress", name), &gv1, t, &same_colour);
            note(&mut o, &format!("{}/payload", name), check_payload(&gv1, &|ks: &[S]| t.e[&ks[0]].labels(), &|d: &Vec<u64>, e: &Vec<u64>| d == e));
        }
        if n >= 2 {
            let g = partial(c.stranded, &cspec, &cv, 0x5555_5555_5555_5555, false).finish_serial();
            let nn = g.len();
            let gvs = view(&g);
            let g1 = compress_graph(c.stranded, &cspec, g, None);
            full_check(&mut o, "partial/colour->recompress", &view(&g1), t, &same_colour);
            // censor each single node of the colour graph
            if nn <= cens_limit + 2 {
                for ci in 0..nn {
                    let keep: BTreeSet<S> = (0..nn).filter(|i| *i != ci).flat_map(|i| gvs.kmers(i)).collect();
                    let mut t2 = t.clone();
                    t2.retain(&|x, _| keep.contains(x));
                    t2.prune(&|_| false);
                    let gc = compress_graph(c.stranded, &cspec, partial(c.stranded, &cspec, &cv, 0x5555_5555_5555_5555, false).finish_serial(), Some(vec![ci]));
                    let same2 = |a: &S, b: &S| t2.e[a].labels() == t2.e[b].labels();
                    full_check(&mut o, &format!("partial/colour->censor({})", ci), &view(&gc), &t2, &same2);
                }
            }
        }
    }
    o
}
