//! C18 - node k-mer iteration obeys the iterator contract.
//! E2: complete next()/nth(n) state graph of the real iterator per node (stateright BFS);
//! E1: perfect-hash index built from the graph iteration gives every k-mer a distinct slot.
use vglue::case::{GCase, Part};
use crate::pipe::*;
use boomphf::Mphf;
use debruijn::compression::*;
use debruijn::filter::*;
use debruijn::graph::*;
use debruijn::*;
use serde_json::{json, Value};
use stateright::{Model, Property};
use std::collections::BTreeSet;
use std::hash::{Hash, Hasher};
use std::panic::{catch_unwind, AssertUnwindSafe};
use std::sync::Arc;
use vcommon::families::{catalogue, Seg, Space};
use vcommon::report::Report;
use vcommon::seq::*;
use vcommon::sweep::Outcome;
use vglue::*;

pub const EXTRA_FLAGS: [&str; 2] = ["mphf_over_five_or_more_kmers", "node_with_six_or_more_kmers"];

pub fn plan(quick: bool) -> Vec<Part> {
    let mut v = vec![];
    let (l4, p4) = if quick { (9, 5) } else { (11, 6) };
    let l5 = if quick { 9 } else { 11 };
    let l6 = if quick { 9 } else { 11 };
    v.push(Part::new("C18", "R1+RT", 4, Space::singles(4, l4).plus(Space::thresholds(4, l4 - 1))));
    v.push(Part::new("C18", "R2", 4, Space::pairs(4, p4)));
    v.push(Part::new("C18", "R1", 5, Space::singles(5, l5)));
    v.push(Part::new("C18", "R1", 6, Space::singles(6, l6)));
    for k in ALL_K {
        let mut segs = vec![catalogue(k)];
        // long LCG reads: >= 300 k-mers, MPHF with several levels, nth() skips > 4
        let mut g = Lcg(77 + k as u64);
        let mut fixed = vec![];
        for len in [400usize, 900, 2500] {
            fixed.push((vec![g.dna(len)], 1));
            fixed.push((vec![g.dna(len), g.dna(len / 2)], 1));
        }
        segs.push(Seg::Fixed(fixed));
        v.push(Part::new("C18", "catalogue+long", k, Space { segs }));
        if k >= 8 {
            v.push(Part::new("C18", "lifted", k, vcommon::families::lifted(k, !quick)));
        }
    }
    v
}

pub fn finalize(_tier: &str, rep: &mut Report) {
    rep.rule = "E2: for graphs whose nodes hold 1..12 k-mers, placed first/middle/last in the packed store, K in {4,5,16,32}: BFS over all interleavings of next() and nth(n), n in {0..7, rem-1, rem, rem+1, rem+5, 1000, usize::MAX-1, usize::MAX}, until exhaustion plus two further calls; state key = (remaining output of the real iterator, calls after exhaustion); invariant: every output equals the slice-iterator model's, len()/size_hint() exact up front, None after the end. E1: for every graph of the read-set families and long LCG reads (>= 300 k-mers): flattening the graph iteration yields every k-mer exactly once, Mphf::from_chunked_iterator over it maps the graph's k-mers onto distinct slots 0..n-1".into();
    rep.assumptions.push("state canonicalisation: the iterator's private state is (position, current k-mer); both are determined by its remaining output under next(), which is the key (argument in DESIGN.md C18)".into());
    rep.floor("E2:unique_states", 100);
    rep.floor("R1+RT@K4:mphf_over_five_or_more_kmers", 1);
}

// ---------------------------------------------------------------- E2
#[derive(Clone, Debug, PartialEq)]
pub enum Op {
    Next,
    Nth(usize),
}

#[derive(Clone, Debug)]
pub struct ISt {
    pub hist: Vec<Op>,
    pub ok: bool,
    pub detail: String,
    pub key: Vec<S>,
    pub endless: bool,
    pub after_end: u8,
}
impl PartialEq for ISt {
    fn eq(&self, o: &ISt) -> bool {
        self.key == o.key && self.endless == o.endless && self.after_end == o.after_end && self.ok == o.ok
    }
}
impl Hash for ISt {
    fn hash<H: Hasher>(&self, h: &mut H) {
        self.key.hash(h);
        self.endless.hash(h);
        self.after_end.hash(h);
        self.ok.hash(h);
    }
}

pub struct IterModel<K: Kmer> {
    pub g: Arc<DebruijnGraph<K, u16>>,
    pub node: usize,
    pub kmers: Vec<S>,
}

impl<K: Kmer + Send + Sync> IterModel<K> {
    fn replay(&self, hist: &[Op]) -> ISt {
        let kmers = &self.kmers;
        let n = kmers.len();
        let r = catch_unwind(AssertUnwindSafe(|| {
            let mut it = self.g.get_node_kmer(self.node).into_iter();
            let mut model = kmers.iter();
            let mut after_end = 0u8;
            // up-front size
            if it.len() != n || it.size_hint() != (n, Some(n)) {
                return (false, format!("len()/size_hint() = {}/{:?}, node has {} k-mers", it.len(), it.size_hint(), n), vec![], false, 0);
            }
            for op in hist {
                if model.len() == 0 {
                    after_end += 1;
                }
                let (got, want) = match op {
                    Op::Next => (it.next(), model.next()),
                    Op::Nth(x) => (it.nth(*x), model.nth(*x)),
                };
                let got = got.map(|k| kstr(&k));
                if got.as_ref() != want {
                    return (false, format!("{:?} returned {:?}, slice-iterator model {:?}", op, got.map(|x| ascii(&x)), want.map(|x| ascii(x))), vec![], false, after_end);
                }
            }
            let mut key = vec![];
            let mut endless = false;
            loop {
                match it.next() {
                    Some(k) => key.push(kstr(&k)),
                    None => break,
                }
                if key.len() > n + 3 {
                    endless = true;
                    break;
                }
            }
            let rest: Vec<S> = model.cloned().collect();
            if key != rest {
                return (false, format!("remaining output {:?}, model {:?}", key.iter().map(|x| ascii(x)).collect::<Vec<_>>(), rest.iter().map(|x| ascii(x)).collect::<Vec<_>>()), key, endless, after_end);
            }
            // the consuming methods on a fresh iterator brought to the same point: what is left, not the whole node
            let advance = || {
                let mut it = self.g.get_node_kmer(self.node).into_iter();
                for op in hist {
                    match op {
                        Op::Next => it.next(),
                        Op::Nth(x) => it.nth(*x),
                    };
                }
                it
            };
            // (len()/size_hint() are only promised "up front" - the crate reports the node's total throughout - so
            // they are judged on the fresh iterator only)
            let c = advance().count();
            if c != rest.len() {
                return (false, format!("after the history count() = {}, {} k-mers are left", c, rest.len()), key, endless, after_end);
            }
            let l = advance().last().map(|k| kstr(&k));
            if l.as_ref() != rest.last() {
                return (false, format!("after the history last() = {:?}, model {:?}", l.map(|x| ascii(&x)), rest.last().map(|x| ascii(x))), key, endless, after_end);
            }
            (true, String::new(), key, endless, after_end)
        }));
        match r {
            Ok((ok, detail, key, endless, after_end)) => ISt { hist: hist.to_vec(), ok, detail, key, endless, after_end },
            Err(_) => ISt { hist: hist.to_vec(), ok: false, detail: "iterator panicked".into(), key: vec![], endless: false, after_end: 0 },
        }
    }
}

impl<K: Kmer + Send + Sync> Model for IterModel<K> {
    type State = ISt;
    type Action = Op;
    fn init_states(&self) -> Vec<ISt> {
        vec![self.replay(&[])]
    }
    fn actions(&self, s: &ISt, a: &mut Vec<Op>) {
        if !s.ok || s.after_end >= 2 {
            return;
        }
        a.push(Op::Next);
        let rem = s.key.len();
        let mut ns: Vec<usize> = vec![0, 1, 2, 3, 4, 5, 6, 7, rem.saturating_sub(1), rem, rem + 1, rem + 5, 1000, usize::MAX - 1, usize::MAX];
        ns.sort();
        ns.dedup();
        for n in ns {
            a.push(Op::Nth(n));
        }
    }
    fn next_state(&self, s: &ISt, op: Op) -> Option<ISt> {
        let mut h = s.hist.clone();
        h.push(op);
        Some(self.replay(&h))
    }
    fn properties(&self) -> Vec<Property<Self>> {
        vec![Property::always("iterator-contract", |_, s: &ISt| s.ok && !s.endless)]
    }
}

fn e2_graph<K: Kmer + Send + Sync>(lens: &[usize], seed: u64) -> DebruijnGraph<K, u16> {
    let mut g = Lcg(seed);
    let mut bg: BaseGraph<K, u16> = BaseGraph::new(true);
    for l in lens {
        bg.add(g.dna(l + K::k() - 1).iter(), Exts::empty(), 1);
    }
    bg.finish_serial()
}

/// explore the iterator of node `node` of the graph described by (k, lens, seed)
pub fn e2_instance(k: usize, lens: &[usize], seed: u64, node: usize) -> (Value, vcommon::e2::E2Result) {
    let desc = json!({"engine": "E2", "k": k, "node_kmer_counts": lens, "seed": seed, "node": node});
    let r = with_kmer!(k, K => {
        let g = Arc::new(e2_graph::<K>(lens, seed));
        let kmers = windows(&view(&g).nodes[node].seq, k);
        vcommon::e2::explore(IterModel::<K> { g, node, kmers }, 40)
    });
    (desc, r)
}

pub fn extra(tier: &str, rep: &mut Report) {
    let ks: &[usize] = if tier == "quick" { &[4, 5, 16, 32] } else { &[4, 5, 6, 8, 16, 31, 32, 48, 64] };
    let max_n = if tier == "quick" { 10 } else { 14 };
    for &k in ks {
        for n in 1..=max_n {
            // the node under test placed first / middle / last in the packed store
            for pos in 0..3 {
                let mut lens = vec![3usize, 2, 4];
                lens[pos] = n;
                let (desc, r) = e2_instance(k, &lens, 1000 + n as u64, pos);
                vcommon::e2::record(rep, "E2", desc, &r, &|_| "nth-past-end".to_string());
            }
        }
    }
}

// ---------------------------------------------------------------- E1
pub fn run<K: Kmer + Send + Sync>(c: &GCase) -> Outcome {
    let mut o = Outcome::default();
    let k = K::k();
    let reads = plain_reads(&c.reads_s());
    let m = models(&reads, k, c.stranded, c.thr);
    o.flags = model_flags(&m);
    let (table, _) = count_table::<K>(&reads, c.stranded, c.thr, false);
    let mut pruned = sorted_vec(&table);
    remove_censored_exts(c.stranded, &mut pruned);
    let g = compress_kmers(c.stranded, &sum_spec(), &pruned).finish_serial();
    let gv = view(&g);
    // flattening the iteration == every node's k-mers in node order, each graph k-mer exactly once
    let mut flat: Vec<S> = vec![];
    for nk in &g {
        let id = nk.node_id;
        let it = nk.into_iter();
        let want = windows(&gv.nodes[id].seq, k);
        if want.len() >= 6 {
            o.flags |= flag::SPECIFIC2;
        }
        o.transitions += 1;
        if it.len() != want.len() {
            o.fail("iterator-len-wrong", format!("node {}: len() {} but {} k-mers", id, it.len(), want.len()));
        }
        let got: Vec<S> = it.map(|x| kstr(&x)).collect();
        if got != want {
            o.fail("iterator-output-wrong", format!("node {} = {}: iteration yields {:?}", id, ascii(&gv.nodes[id].seq), got.iter().map(|x| ascii(x)).collect::<Vec<_>>()));
        }
        flat.extend(got);
    }
    let canon_flat: Vec<S> = flat.iter().map(|x| canon(x, c.stranded).0).collect();
    let set: BTreeSet<S> = canon_flat.iter().cloned().collect();
    if set.len() != canon_flat.len() || set != m.kept.e.keys().cloned().collect::<BTreeSet<S>>() {
        o.fail("iteration-not-exactly-once", format!("iterating all nodes yields {} k-mers, {} distinct, table has {}", canon_flat.len(), set.len(), m.kept.e.len()));
    }
    // perfect-hash index built from that iteration
    let n = flat.len();
    if n > 0 && o.ok() {
        if n >= 5 {
            o.flags |= flag::SPECIFIC;
        }
        let mphf: Mphf<K> = Mphf::from_chunked_iterator(1.7, &g, n as u64);
        o.transitions += 1;
        let mut slots = vec![false; n];
        for w in &flat {
            match mphf.try_hash(&mk::<K>(w)) {
                Some(s) if (s as usize) < n && !slots[s as usize] => slots[s as usize] = true,
                other => {
                    o.fail("mphf-slot-not-distinct", format!("k-mer {} gets slot {:?} (n = {}), not a fresh slot in range", ascii(w), other, n));
                    break;
                }
            }
        }
    }
    o
}
