//! C19 (E1 half) - finish() (parallel index builder) == finish_serial(), lookups exact.
//! The schedule quantifier is decided by the loom engine (harness-loom); this part enumerates
//! the graph/input quantifier and adds a labelled native sampling run on large graphs.
use vglue::case::{GCase, Part};
use crate::pipe::*;
use debruijn::compression::*;
use debruijn::filter::*;
use debruijn::graph::*;
use debruijn::*;
use serde_json::json;
use vcommon::families::{catalogue, Seg, Space};
use vcommon::report::Report;
use vcommon::refmodel::Side;
use vcommon::seq::*;
use vcommon::sweep::Outcome;
use vglue::oracles::*;
use vglue::*;

pub const EXTRA_FLAGS: [&str; 1] = ["three_or_more_nodes"];

pub fn plan(quick: bool) -> Vec<Part> {
    let mut v = vec![];
    let (l4, p4) = if quick { (7, 5) } else { (9, 5) };
    let l5 = if quick { 7 } else { 9 };
    let l6 = if quick { 7 } else { 9 };
    v.push(Part::new("C19", "R1+RT", 4, Space::singles(4, l4).plus(Space::thresholds(4, l4 - 1))));
    v.push(Part::new("C19", "R2", 4, if quick { Space { segs: vec![Seg::Pair(4, 4), Seg::Pair(5, 4)] } } else { Space::pairs(4, p4) }));
    v.push(Part::new("C19", "R1", 5, Space::singles(5, l5)));
    v.push(Part::new("C19", "R1", 6, Space::singles(6, l6)));
    for k in BIG_K {
        v.push(Part::new("C19", "catalogue", k, Space { segs: vec![catalogue(k)] }));
        v.push(Part::new("C19", "lifted", k, vcommon::families::lifted(k, !quick)));
    }
    // hand-built graphs: arbitrary node lists handed to BaseGraph::add (not the output of the crate's own compressors),
    // e.g. nodes longer than K that start or end with a palindromic k-mer
    let hb = if quick { Space::singles(4, 6).plus(Space { segs: vec![Seg::Pair(4, 4), Seg::Pair(5, 4)] }) } else { Space::singles(4, 8).plus(Space::pairs(4, 5)).plus(Space::triples(4, 4)) };
    v.push(Part::new("C19", "handbuilt-node-lists", 4, hb).dim("handbuilt", &[1]));
    v.push(Part::new("C19", "handbuilt-node-lists", 5, if quick { Space::singles(5, 7) } else { Space::singles(5, 8).plus(Space { segs: vec![Seg::Pair(5, 5)] }) }).dim("handbuilt", &[1]));
    v.push(Part::new("C19", "handbuilt-node-lists", 6, Space::singles(6, if quick { 7 } else { 9 })).dim("handbuilt", &[1]));
    v
}

pub fn finalize(_tier: &str, rep: &mut Report) {
    rep.rule = "E1 half: for every hand-built node list (all single nodes of length K..K+2(4) and all pairs of short nodes with distinct end k-mers, every extension bit set, stranded and unstranded - including nodes that begin or end with a palindromic k-mer) and for every graph of the read-set families (unpruned and pruned tables, i.e. with and without dangling extensions): finish() and finish_serial() are built from the same BaseGraph and must give identical node order, identical edge lists on every node side, identical find_link answers for ALL 4^K k-mers x both directions (K<=6; terminal k-mers, reverse complements and neighbours for K>=8), twice in a row; every answer is also judged against the string-level terminal-k-mer index. The schedule quantifier is decided by the loom engine (see coverage.loom)".into();
    rep.assumptions.push("inside the sweep, finish() runs nested in the harness's rayon pool; the exhaustive scheduling claim comes from the loom part only".into());
    rep.floor("R1+RT@K4:three_or_more_nodes", 1);
    rep.floor("handbuilt-node-lists@K4:palindromic_kmer", 1);
}

type Ans = Option<EdgeV>;
fn queries<K: Kmer>(g: &DebruijnGraph<K, u16>, qs: &[S]) -> Vec<Ans> {
    let mut v = Vec::with_capacity(qs.len() * 2);
    for q in qs {
        for d in [Dir::Left, Dir::Right] {
            v.push(g.find_link(mk::<K>(q), d).map(|(i, s, f)| (i, side_of(s), f)));
        }
    }
    v
}

fn compare<K: Kmer + Send + Sync>(o: &mut Outcome, stage: &str, bg: BaseGraph<K, u16>) {
    let k = K::k();
    let serial = bg.clone().finish_serial();
    let par1 = bg.clone().finish();
    let par2 = bg.finish();
    let gs = view(&serial);
    if gs.nodes.len() >= 3 {
        o.flags |= flag::SPECIFIC;
    }
    let qs: Vec<S> = if k <= 6 {
        all_strings(k).collect()
    } else {
        let mut qs = std::collections::BTreeSet::new();
        for i in 0..gs.nodes.len() {
            for w in [gs.first(i).to_vec(), gs.last(i).to_vec()] {
                qs.insert(rc(&w));
                for b in 0..4u8 {
                    qs.insert(ext_str(&w, Side::L, b));
                    qs.insert(ext_str(&w, Side::R, b));
                }
                qs.insert(w);
            }
        }
        qs.into_iter().collect()
    };
    let want = queries(&serial, &qs);
    let idx = gs.link_index();
    for (i, q) in qs.iter().enumerate() {
        for (j, d) in [Side::L, Side::R].iter().enumerate() {
            if let Err((sig, det)) = check_find_link(&idx, q, *d, want[2 * i + j]) {
                o.fail(&sig, format!("[{} serial] {}", stage, det));
            }
        }
    }
    for (name, p) in [("finish#1", &par1), ("finish#2", &par2)] {
        o.transitions += 1 + qs.len() as u64 * 2;
        let gp = view(p);
        if gp.nodes.len() != gs.nodes.len() {
            o.fail("parallel-differs-from-serial", format!("[{} {}] {} nodes vs {}", stage, name, gp.nodes.len(), gs.nodes.len()));
            continue;
        }
        for i in 0..gs.nodes.len() {
            let (a, b) = (&gs.nodes[i], &gp.nodes[i]);
            if a.seq != b.seq || a.l != b.l || a.r != b.r || a.data != b.data {
                o.fail("parallel-differs-from-serial", format!("[{} {}] node {} differs", stage, name, i));
            }
            if a.ledges != b.ledges || a.redges != b.redges {
                o.fail("parallel-differs-from-serial", format!("[{} {}] node {} = {}: edges L{:?} R{:?} vs serial L{:?} R{:?}", stage, name, i, ascii(&a.seq), b.ledges, b.redges, a.ledges, a.redges));
            }
        }
        let got = queries(p, &qs);
        if got != want {
            let at = got.iter().zip(want.iter()).position(|(x, y)| x != y).unwrap();
            o.fail("parallel-differs-from-serial", format!("[{} {}] find_link({}, {}) = {:?}, serial {:?}", stage, name, ascii(&qs[at / 2]), if at % 2 == 0 { "Left" } else { "Right" }, got[at], want[at]));
        }
    }
}

pub fn run<K: Kmer + Send + Sync>(c: &GCase) -> Outcome {
    let mut o = Outcome::default();
    let k = K::k();
    if c.get("handbuilt") == 1 {
        let nodes = c.reads_s();
        // a BaseGraph needs distinct first k-mers and distinct last k-mers (they are perfect-hash keys)
        let firsts: std::collections::BTreeSet<&[u8]> = nodes.iter().map(|n| &n[..k]).collect();
        let lasts: std::collections::BTreeSet<&[u8]> = nodes.iter().map(|n| &n[n.len() - k..]).collect();
        if firsts.len() != nodes.len() || lasts.len() != nodes.len() {
            return o;
        }
        // a valid graph holds every (canonical) k-mer at most once
        let all: Vec<S> = nodes.iter().flat_map(|n| windows(n, k)).map(|w| canon(&w, c.stranded).0).collect();
        if all.iter().collect::<std::collections::BTreeSet<_>>().len() != all.len() {
            return o;
        }
        if nodes.iter().any(|n| (!c.stranded && n.len() > k) && (is_pal(&n[..k]) || is_pal(&n[n.len() - k..]))) {
            o.flags |= flag::PAL;
        }
        let mut bg: BaseGraph<K, u16> = BaseGraph::new(c.stranded);
        for (i, n) in nodes.iter().enumerate() {
            bg.add(n.iter(), Exts::new(0xff), i as u16);
        }
        compare(&mut o, "handbuilt", bg.clone());
        // with every extension bit set, the reported edge lists must be exactly the resolvable lookups
        let g = bg.finish();
        let gv = view(&g);
        let idx = gv.link_index();
        for i in 0..gv.nodes.len() {
            for side in [Side::L, Side::R] {
                let want: Vec<Vec<EdgeV>> = (0..4u8).map(|b| idx.answers(&ext_str(gv.term(i, side), side, b), side)).filter(|a| !a.is_empty()).collect();
                let got = gv.nodes[i].edges(side);
                o.transitions += 1;
                if !vglue::oracles::match_edges(got, &want) {
                    o.fail("wrong-edge", format!("[handbuilt] node {} = {} side {:?}: edges {:?}, acceptable {:?}", i, ascii(&gv.nodes[i].seq), side, got, want));
                }
            }
        }
        return o;
    }
    let reads = plain_reads(&c.reads_s());
    let m = models(&reads, k, c.stranded, c.thr);
    o.flags = model_flags(&m);
    let (table, _) = count_table::<K>(&reads, c.stranded, c.thr, false);
    if !m.kept.is_closed() {
        compare(&mut o, "unpruned", compress_kmers_with_hash(c.stranded, &sum_spec(), &table));
    }
    let mut pruned = sorted_vec(&table);
    remove_censored_exts(c.stranded, &mut pruned);
    compare(&mut o, "pruned", compress_kmers(c.stranded, &sum_spec(), &pruned));
    // one k-mer per node: the largest node count this read set can give
    let mut bg: BaseGraph<K, u16> = BaseGraph::new(c.stranded);
    for (km, (e, d)) in &pruned {
        bg.add(km.iter(), *e, *d);
    }
    compare(&mut o, "singletons", bg);
    o
}

/// Supplementary NATIVE run (sampling of real schedules, not exhaustive): large graphs under
/// real rayon pools of 1..16 threads, repeated, compared with the serial build.
pub fn extra(tier: &str, rep: &mut Report) {
    use debruijn::kmer::Kmer16;
    // (node counts that are not multiples of small powers of two: work split into equal chunks must not lose the remainder)
    let n_nodes: usize = if tier == "quick" { 120_003 } else { 400_003 };
    let pools: &[usize] = if tier == "quick" { &[2, 16] } else { &[1, 2, 3, 4, 8, 16] };
    let mut g = Lcg(4242);
    let mut bg: BaseGraph<Kmer16, u16> = BaseGraph::new(false);
    let mut seen = std::collections::HashSet::new();
    let mut added = 0usize;
    while added < n_nodes {
        let len = 16 + g.below(6);
        let s = g.dna(len);
        // keep terminal k-mers distinct (a valid graph never repeats a k-mer)
        let f = s[..16].to_vec();
        let l = s[len - 16..].to_vec();
        let keys = [canon(&f, false).0, canon(&l, false).0];
        if keys.iter().any(|x| seen.contains(x)) {
            continue;
        }
        for x in keys {
            seen.insert(x);
        }
        bg.add(s.iter(), Exts::new(0xff), 1);
        added += 1;
    }
    let serial = bg.clone().finish_serial();
    let probes: Vec<Kmer16> = (0..50_000).map(|_| mk::<Kmer16>(&g.dna(16))).collect();
    let ask = |d: &DebruijnGraph<Kmer16, u16>| -> Vec<Option<(usize, bool, bool)>> {
        let mut v = vec![];
        for i in (0..d.len()).step_by(7).chain(d.len().saturating_sub(24)..d.len()) {
            let n = d.get_node(i);
            let s = n.sequence();
            for (km, dir) in [(s.first_kmer::<Kmer16>(), Dir::Right), (s.last_kmer::<Kmer16>(), Dir::Left), (s.first_kmer::<Kmer16>().rc(), Dir::Right), (s.last_kmer::<Kmer16>().rc(), Dir::Left)] {
                v.push(d.find_link(km, dir).map(|(i, s, f)| (i, matches!(s, Dir::Left), f)));
            }
        }
        for p in &probes {
            v.push(d.find_link(*p, Dir::Left).map(|(i, s, f)| (i, matches!(s, Dir::Left), f)));
        }
        v
    };
    let want = ask(&serial);
    let mut runs = 0;
    for &t in pools {
        let pool = rayon::ThreadPoolBuilder::new().num_threads(t).build().expect("pool");
        for rep_i in 0..2 {
            let b2 = bg.clone();
            let par = pool.install(|| b2.finish());
            runs += 1;
            if ask(&par) != want {
                rep.violation(vcommon::report::Violation {
                    signature: "parallel-differs-from-serial".into(),
                    case: json!({"native": true, "nodes": n_nodes, "threads": t, "repeat": rep_i}),
                    detail: format!("native finish() with a {}-thread pool answers differently from finish_serial() on a {}-node graph", t, n_nodes),
                });
            }
        }
    }
    rep.extra.insert("native_sampling".into(), json!({"note": "NOT exhaustive: real rayon schedules are sampled, not enumerated", "nodes": n_nodes, "pool_sizes": pools, "runs": runs, "queries_per_run": want.len()}));
    rep.count("native:runs_large_graph", runs);
}
