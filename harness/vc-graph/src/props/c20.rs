//! C20 - exports and persistence are faithful (serde JSON round trips, GFA, JSON export).
use vglue::case::{GCase, Part};
use crate::pipe::*;
use debruijn::compression::*;
use debruijn::dna_string::{DnaString, PackedDnaStringSet};
use debruijn::filter::*;
use debruijn::graph::*;
use debruijn::vmer::{Lmer1, Lmer2, Lmer3};
use debruijn::*;
use serde::{de::DeserializeOwned, Serialize};
use serde_json::json;
use std::collections::{BTreeMap, BTreeSet};
use vcommon::families::{catalogue, Space};
use vcommon::refmodel::*;
use vcommon::report::{Report, Violation};
use vcommon::seq::*;
use vcommon::sweep::Outcome;
use vglue::*;

pub const EXTRA_FLAGS: [&str; 4] = ["right_side_hairpin_self_link", "circular_or_left_self_link", "last_node_without_right_links", "empty_or_link_free_graph"];

pub fn plan(quick: bool) -> Vec<Part> {
    let mut v = vec![];
    let (l4, p4, t4) = if quick { (8, 5, 7) } else { (10, 5, 9) };
    let (l5, t5) = if quick { (8, 7) } else { (10, 9) };
    let l6 = if quick { 8 } else { 10 };
    v.push(Part::new("C20", "R1+RT", 4, Space::singles(4, l4).plus(Space::thresholds(4, t4)).plus(Space { segs: vec![vcommon::families::Seg::Single(3)] })));
    v.push(Part::new("C20", "R2", 4, if quick { Space { segs: vec![vcommon::families::Seg::Pair(4, 4), vcommon::families::Seg::Pair(5, 4)] } } else { Space::pairs(4, p4) }));
    v.push(Part::new("C20", "R1+RT", 5, Space::singles(5, l5).plus(Space::thresholds(5, t5))));
    v.push(Part::new("C20", "R1", 6, Space::singles(6, l6)));
    if !quick {
        v.push(Part::new("C20", "R2", 5, Space { segs: vec![vcommon::families::Seg::Pair(5, 5), vcommon::families::Seg::Pair(6, 5)] }));
        v.push(Part::new("C20", "R3", 4, Space::triples(4, 4)));
    }
    v.push(Part::new("C20", "handbuilt-node-lists", 4, if quick { Space::singles(4, 6).plus(Space { segs: vec![vcommon::families::Seg::Pair(4, 4), vcommon::families::Seg::Pair(5, 4)] }) } else { Space::singles(4, 8).plus(Space::pairs(4, 5)).plus(Space::triples(4, 4)) }).dim("handbuilt", &[1]));
    for k in BIG_K {
        v.push(Part::new("C20", "catalogue", k, Space { segs: vec![catalogue(k)] }));
        if !quick || LIFT_QUICK_K.contains(&k) {
            v.push(Part::new("C20", "lifted", k, vcommon::families::lifted(k, !quick)));
        }
    }
    v
}

pub fn finalize(_tier: &str, rep: &mut Report) {
    rep.rule = "for every graph of the read-set families x {stranded, unstranded} (pruned graphs; unpruned thresholded graphs and hand-built node lists with dangling extensions for the GFA/JSON exports): serde_json round trip of BaseGraph and DebruijnGraph (every node, extension set, payload, edge list and all 4^K link lookups identical); GFA via write_gfa (every case) and to_gfa / to_gfa_with_tags (files, a deterministic 1/16 subset): header, one S line per node with its sequence, L lines normalised under 'L a o1 b o2 == L b -o2 a -o1' must equal the reference adjacency set, each exactly once unless it touches a palindromic single-k-mer node, overlap K-1M; JSON via to_json_rest (with and without rest object): must parse, lists every node (id, length, sequence) and exactly the right-going links. Value kinds (every k-mer type, DnaString, Exts, Dir, Lmer, PackedDnaStringSet) are round-tripped over pattern families".into();
    rep.assumptions.push("serde_json is the parser oracle; only the JSON serde format is available offline".into());
    for f in ["right_side_hairpin_self_link", "circular_or_left_self_link", "last_node_without_right_links", "empty_or_link_free_graph"] {
        rep.floor(&format!("R1+RT@K{}:{}", if f.starts_with("right") { 5 } else { 4 }, f), 1);
    }
    rep.floor("values:round_trips", 1000);
}

type End = (usize, Side);
fn norm_link(g: &GraphV<u16>, a: End, b: End) -> (End, End) {
    let n = |e: End| if g.is_pal_single(e.0) { (e.0, Side::R) } else { e };
    let (a, b) = (n(a), n(b));
    if a <= b {
        (a, b)
    } else {
        (b, a)
    }
}

/// reference node-level adjacency from the string-level terminal index (not from the crate's edge lists)
fn ref_adjacency(g: &GraphV<u16>) -> (BTreeSet<(End, End)>, BTreeSet<(End, End)>) {
    let idx = g.link_index();
    let mut all = BTreeSet::new();
    let mut lenient = BTreeSet::new();
    for i in 0..g.nodes.len() {
        for side in [Side::L, Side::R] {
            for b in 0..4u8 {
                if g.nodes[i].bases(side)[b as usize] {
                    for (t, ts, _) in idx.answers(&ext_str(g.term(i, side), side, b), side) {
                        let l = norm_link(g, (i, side), (t, ts));
                        if g.is_pal_single(i) || g.is_pal_single(t) {
                            lenient.insert(l);
                        }
                        all.insert(l);
                    }
                }
            }
        }
    }
    (all, lenient)
}

fn check_gfa(o: &mut Outcome, what: &str, txt: &str, g: &GraphV<u16>, tags: Option<&dyn Fn(usize) -> String>) {
    let k = g.k;
    // header lines (record type H) may carry any version tag; they are not judged beyond being present first
    let lines = txt.lines().skip_while(|l| l.starts_with("H\t") || *l == "H");
    if !txt.starts_with('H') {
        o.fail("gfa-header", format!("[{}] the export does not start with a header record", what));
    }
    let mut segs: BTreeMap<usize, usize> = BTreeMap::new();
    let mut got: BTreeMap<(End, End), usize> = BTreeMap::new();
    for l in lines {
        let f: Vec<&str> = l.split('\t').collect();
        match f[0] {
            "S" => {
                let id: usize = match f.get(1).and_then(|x| x.parse().ok()) {
                    Some(i) if i < g.nodes.len() => i,
                    _ => {
                        o.fail("gfa-segment-wrong", format!("[{}] bad S line {:?}", what, l));
                        continue;
                    }
                };
                *segs.entry(id).or_insert(0) += 1;
                if f.get(2).copied() != Some(ascii(&g.nodes[id].seq).as_str()) {
                    o.fail("gfa-segment-wrong", format!("[{}] S line {:?}, node sequence {}", what, l, ascii(&g.nodes[id].seq)));
                }
                if let Some(tf) = tags {
                    // an empty tag string may be written as an empty trailing field or left out
                    let want = tf(id);
                    let ok = if want.is_empty() { f.len() == 3 || (f.len() == 4 && f[3].is_empty()) } else { f.get(3).copied() == Some(want.as_str()) };
                    if !ok {
                        o.fail("gfa-segment-wrong", format!("[{}] S line {:?} lacks its tag {:?}", what, l, want));
                    }
                }
            }
            "L" => {
                let ok = f.len() == 6 && f[5] == format!("{}M", k - 1) && (f[2] == "+" || f[2] == "-") && (f[4] == "+" || f[4] == "-");
                let (a, b) = (f.get(1).and_then(|x| x.parse::<usize>().ok()), f.get(3).and_then(|x| x.parse::<usize>().ok()));
                match (ok, a, b) {
                    (true, Some(a), Some(b)) if a < g.nodes.len() && b < g.nodes.len() => {
                        let e1 = (a, if f[2] == "+" { Side::R } else { Side::L });
                        let e2 = (b, if f[4] == "+" { Side::L } else { Side::R });
                        *got.entry(norm_link(g, e1, e2)).or_insert(0) += 1;
                    }
                    _ => o.fail("gfa-link-malformed", format!("[{}] bad L line {:?} (K={})", what, l, k)),
                }
            }
            _ => o.fail("gfa-unknown-line", format!("[{}] unexpected line {:?}", what, l)),
        }
    }
    for i in 0..g.nodes.len() {
        if segs.get(&i).copied().unwrap_or(0) != 1 {
            o.fail("gfa-segment-count", format!("[{}] node {} listed {} times", what, i, segs.get(&i).copied().unwrap_or(0)));
        }
    }
    let (want, lenient) = ref_adjacency(g);
    for l in got.keys() {
        if !want.contains(l) {
            o.fail("gfa-link-not-an-adjacency", format!("[{}] L line for {:?} is not an adjacency of the graph", what, l));
        }
    }
    for l in &want {
        let c = got.get(l).copied().unwrap_or(0);
        if c == 0 {
            o.fail("gfa-link-missing", format!("[{}] adjacency {:?} (node sequences {} / {}) has no L line", what, l, ascii(&g.nodes[(l.0).0].seq), ascii(&g.nodes[(l.1).0].seq)));
        } else if c > 1 && !lenient.contains(l) {
            o.fail("gfa-link-duplicated", format!("[{}] adjacency {:?} listed {} times", what, l, c));
        }
    }
}

fn check_json(o: &mut Outcome, what: &str, bytes: &[u8], g: &GraphV<u16>, rest: Option<&serde_json::Value>) {
    let v: serde_json::Value = match serde_json::from_slice(bytes) {
        Ok(v) => v,
        Err(e) => {
            o.fail("json-not-wellformed", format!("[{}] {} in {:?}", what, e, String::from_utf8_lossy(bytes).chars().take(300).collect::<String>()));
            return;
        }
    };
    let nodes = v["nodes"].as_array().cloned().unwrap_or_default();
    if nodes.len() != g.nodes.len() || !v["nodes"].is_array() {
        o.fail("json-nodes-wrong", format!("[{}] {} nodes listed, graph has {}", what, nodes.len(), g.nodes.len()));
        return;
    }
    for (i, n) in nodes.iter().enumerate() {
        let s = ascii(&g.nodes[i].seq);
        let ok = n["id"] == json!(i.to_string()) && n["L"] == json!(s.len()) && n["D"] == json!(g.nodes[i].data) && (s.len() >= 256 || n["Se"] == json!(s));
        if !ok {
            o.fail("json-nodes-wrong", format!("[{}] node entry {} for node {} = {}", what, n, i, s));
        }
    }
    // right-going links: one per resolvable right extension
    let idx = g.link_index();
    let mut want: Vec<(String, Vec<(String, String)>)> = vec![];
    for i in 0..g.nodes.len() {
        for b in 0..4u8 {
            if g.nodes[i].r[b as usize] {
                let acc = idx.answers(&ext_str(g.last(i), Side::R, b), Side::R);
                if !acc.is_empty() {
                    want.push((i.to_string(), acc.iter().map(|(t, ts, _)| (t.to_string(), if *ts == Side::L { "L".to_string() } else { "R".to_string() })).collect()));
                }
            }
        }
    }
    let links = v["links"].as_array().cloned().unwrap_or_default();
    if !v["links"].is_array() || links.len() != want.len() {
        o.fail("json-links-wrong", format!("[{}] {} links listed, graph has {} right-going links", what, links.len(), want.len()));
        return;
    }
    // the order of the link entries is not promised: match them as a multiset
    let mut used = vec![false; want.len()];
    for l in links.iter() {
        let hit = (0..want.len()).find(|j| !used[*j] && l["source"] == json!(want[*j].0) && want[*j].1.iter().any(|(t, d)| l["target"] == json!(t) && l["D"] == json!(d)));
        match hit {
            Some(j) => used[j] = true,
            None => o.fail("json-links-wrong", format!("[{}] link {} is not a (not yet listed) right-going link; expected {:?}", what, l, want)),
        }
    }
    if let Some(serde_json::Value::Object(m)) = rest {
        for (key, val) in m {
            if v.get(key) != Some(val) {
                o.fail("json-rest-wrong", format!("[{}] rest key {} = {:?}", what, key, v.get(key)));
            }
        }
    }
}

fn same_graph<K: Kmer>(o: &mut Outcome, what: &str, a: &DebruijnGraph<K, u16>, b: &DebruijnGraph<K, u16>) {
    let (va, vb) = (view(a), view(b));
    if va.nodes.len() != vb.nodes.len() || va.stranded != vb.stranded {
        o.fail("serde-roundtrip-differs", format!("[{}] node count / strandedness changed", what));
        return;
    }
    for i in 0..va.nodes.len() {
        let (x, y) = (&va.nodes[i], &vb.nodes[i]);
        if x.seq != y.seq || x.l != y.l || x.r != y.r || x.data != y.data || x.ledges != y.ledges || x.redges != y.redges {
            o.fail("serde-roundtrip-differs", format!("[{}] node {} differs after the round trip", what, i));
        }
    }
    // every query: link lookups for ALL k-mers (K <= 6) or for every terminal k-mer, its reverse complement and
    // its one-base neighbours (wide K)
    let probes: Vec<S> = if K::k() <= 6 {
        all_strings(K::k()).collect()
    } else {
        let mut v: Vec<S> = vec![];
        for i in 0..va.nodes.len() {
            for t in [va.first(i).to_vec(), va.last(i).to_vec()] {
                v.push(rc(&t));
                for b in 0..4u8 {
                    v.push(ext_str(&t, Side::L, b));
                    v.push(ext_str(&t, Side::R, b));
                }
                v.push(t);
            }
        }
        v
    };
    for w in probes {
        for d in [Dir::Left, Dir::Right] {
            let (p, q) = (a.find_link(mk::<K>(&w), d), b.find_link(mk::<K>(&w), d));
            if p.map(|(i, s, f)| (i, side_of(s), f)) != q.map(|(i, s, f)| (i, side_of(s), f)) {
                o.fail("serde-roundtrip-differs", format!("[{}] find_link({}) differs after the round trip", what, ascii(&w)));
            }
        }
    }
    // node k-mer iteration, best paths and the exports of the graph read back
    for i in 0..va.nodes.len() {
        let (x, y): (Vec<K>, Vec<K>) = (a.get_node_kmer(i).into_iter().collect(), b.get_node_kmer(i).into_iter().collect());
        if x != y {
            o.fail("serde-roundtrip-differs", format!("[{}] node {}: k-mer iteration differs after the round trip", what, i));
        }
    }
    if !va.nodes.is_empty() {
        let (p, q) = (a.max_path(|d| *d as f32, |_| true), b.max_path(|d| *d as f32, |_| true));
        if format!("{:?}", p) != format!("{:?}", q) || a.sequence_of_path(p.iter()).to_string() != b.sequence_of_path(q.iter()).to_string() {
            o.fail("serde-roundtrip-differs", format!("[{}] max_path / sequence_of_path differ after the round trip", what));
        }
    }
    let (mut ga, mut gb) = (Vec::new(), Vec::new());
    let _ = a.write_gfa(&mut ga);
    let _ = b.write_gfa(&mut gb);
    let (mut ja, mut jb) = (Vec::new(), Vec::new());
    a.to_json_rest(|d| json!(*d), &mut ja, None);
    b.to_json_rest(|d| json!(*d), &mut jb, None);
    if ga != gb || ja != jb {
        o.fail("serde-roundtrip-differs", format!("[{}] the GFA / JSON export of the graph read back differs from the original's", what));
    }
    if a.is_compressed(&sum_spec()) != b.is_compressed(&sum_spec()) {
        o.fail("serde-roundtrip-differs", format!("[{}] is_compressed differs after the round trip", what));
    }
}

/// exports of one finished graph (GFA in memory, JSON with and without rest)
fn exports<K: Kmer>(o: &mut Outcome, what: &str, g: &DebruijnGraph<K, u16>) {
    let gv = view(g);
    let mut out = Vec::new();
    g.write_gfa(&mut out).expect("write_gfa");
    o.transitions += 3;
    check_gfa(o, &format!("{}/write_gfa", what), &String::from_utf8_lossy(&out), &gv, None);
    let mut out = Vec::new();
    g.to_json_rest(|d| json!(*d), &mut out, None);
    check_json(o, &format!("{}/to_json_rest(None)", what), &out, &gv, None);
    let rest = json!({"k": K::k()});
    let mut out = Vec::new();
    g.to_json_rest(|d| json!(*d), &mut out, Some(rest.clone()));
    check_json(o, &format!("{}/to_json_rest(Some)", what), &out, &gv, Some(&rest));
}

pub fn run<K: Kmer + Send + Sync + Serialize + DeserializeOwned>(c: &GCase) -> Outcome {
    let mut o = Outcome::default();
    let k = K::k();
    if c.get("handbuilt") == 1 {
        // hand-built node lists with every extension bit set: most extensions dangle, some resolve
        let nodes = c.reads_s();
        let firsts: BTreeSet<&[u8]> = nodes.iter().map(|n| &n[..k]).collect();
        let lasts: BTreeSet<&[u8]> = nodes.iter().map(|n| &n[n.len() - k..]).collect();
        let all: Vec<S> = nodes.iter().flat_map(|n| windows(n, k)).map(|w| canon(&w, c.stranded).0).collect();
        if firsts.len() != nodes.len() || lasts.len() != nodes.len() || all.iter().collect::<BTreeSet<_>>().len() != all.len() {
            return o;
        }
        let mut bg: BaseGraph<K, u16> = BaseGraph::new(c.stranded);
        for (i, n) in nodes.iter().enumerate() {
            bg.add(n.iter(), Exts::new(0xff), i as u16);
        }
        let g = bg.finish_serial();
        if view(&g).nodes.iter().any(|n| !n.redges.is_empty()) {
            o.flags |= flag::SPECIFIC3;
        }
        exports(&mut o, "handbuilt", &g);
        return o;
    }
    let rs = c.reads_s();
    let reads = plain_reads(&rs);
    let m = models(&reads, k, c.stranded, c.thr);
    o.flags = model_flags(&m);
    let (table, _) = count_table::<K>(&reads, c.stranded, c.thr, false);
    let mut pruned = sorted_vec(&table);
    remove_censored_exts(c.stranded, &mut pruned);
    // graphs with dangling extensions (thresholded, unpruned table): exports must cope with extension bits that resolve to no node
    if !m.kept.is_closed() {
        let gu = compress_kmers_with_hash(c.stranded, &sum_spec(), &table).finish_serial();
        exports(&mut o, "unpruned", &gu);
    }
    let bg = compress_kmers(c.stranded, &sum_spec(), &pruned);
    // serde: BaseGraph
    {
        let js = serde_json::to_string(&bg).expect("serialize BaseGraph");
        match serde_json::from_str::<BaseGraph<K, u16>>(&js) {
            Ok(b2) => {
                o.transitions += 1;
                let (x, y) = (view(&bg.clone().finish_serial()), view(&b2.finish_serial()));
                if format!("{:?}", x.nodes) != format!("{:?}", y.nodes) || x.stranded != y.stranded {
                    o.fail("serde-roundtrip-differs", "BaseGraph differs after the JSON round trip".into());
                }
            }
            Err(e) => o.fail("serde-roundtrip-fails", format!("BaseGraph does not deserialize: {}", e)),
        }
    }
    let g = bg.finish_serial();
    let gv = view(&g);
    // classes
    for i in 0..gv.nodes.len() {
        if gv.nodes[i].redges.iter().any(|(t, s, _)| *t == i && *s == Side::R) {
            o.flags |= flag::SPECIFIC;
        }
        if gv.nodes[i].ledges.iter().any(|(t, _, _)| *t == i) {
            o.flags |= flag::SPECIFIC2;
        }
    }
    if gv.nodes.len() >= 2 && gv.nodes.last().unwrap().redges.is_empty() && gv.nodes.iter().any(|n| !n.redges.is_empty()) {
        o.flags |= flag::SPECIFIC3;
    }
    if gv.nodes.iter().all(|n| n.redges.is_empty() && n.ledges.is_empty()) {
        o.flags |= flag::SPECIFIC4;
    }
    // serde: finished graph
    {
        let js = serde_json::to_string(&g).expect("serialize DebruijnGraph");
        match serde_json::from_str::<DebruijnGraph<K, u16>>(&js) {
            Ok(g2) => {
                o.transitions += 2;
                same_graph(&mut o, "DebruijnGraph", &g, &g2);
                // ... and the graph read back can be worked on: re-compressing it gives what re-compressing the original gives
                let ra = view(&compress_graph(c.stranded, &sum_spec(), compress_kmers(c.stranded, &sum_spec(), &pruned).finish_serial(), None));
                let rb = view(&compress_graph(c.stranded, &sum_spec(), g2, None));
                if format!("{:?}", ra.nodes) != format!("{:?}", rb.nodes) {
                    o.fail("serde-roundtrip-differs", "re-compressing the graph read back differs from re-compressing the original".into());
                }
            }
            Err(e) => o.fail("serde-roundtrip-fails", format!("DebruijnGraph does not deserialize: {}", e)),
        }
    }
    // GFA in memory
    {
        let mut out = Vec::new();
        g.write_gfa(&mut out).expect("write_gfa");
        o.transitions += 1;
        check_gfa(&mut o, "write_gfa", &String::from_utf8_lossy(&out), &gv, None);
    }
    // GFA through files for a deterministic subset of cases
    let pick = rs.iter().map(|r| rank(&r[..r.len().min(30)]) as usize + r.len()).sum::<usize>() % 16 == 0 || k > 6;
    if pick {
        let dir = std::env::temp_dir().join(format!("verif-c20-{}", std::process::id()));
        let _ = std::fs::create_dir_all(&dir);
        let p = dir.join(format!("{:?}.gfa", std::thread::current().id()));
        g.to_gfa(&p).expect("to_gfa");
        let txt = std::fs::read_to_string(&p).expect("read gfa");
        check_gfa(&mut o, "to_gfa", &txt, &gv, None);
        g.to_gfa_with_tags(&p, |n| format!("LN:i:{}\tDP:i:{}", n.len(), n.data())).expect("to_gfa_with_tags");
        let txt = std::fs::read_to_string(&p).expect("read gfa");
        // tags contain a tab: compare the first tag only via closure producing the same text up to the tab
        let gv2 = gv.clone();
        check_gfa(&mut o, "to_gfa_with_tags", &txt, &gv, Some(&move |i: usize| format!("LN:i:{}", gv2.nodes[i].seq.len())));
        // tag functions that return nothing for some / all nodes: every record must still be a line of its own
        for which in 0..2usize {
            g.to_gfa_with_tags(&p, |n| if which == 0 || n.node_id % 2 == 0 { String::new() } else { format!("LN:i:{}", n.len()) }).expect("to_gfa_with_tags");
            let txt = std::fs::read_to_string(&p).expect("read gfa");
            let gv3 = gv.clone();
            check_gfa(&mut o, if which == 0 { "to_gfa_with_tags(empty tags)" } else { "to_gfa_with_tags(tags on odd nodes)" }, &txt, &gv, Some(&move |i: usize| if which == 0 || i % 2 == 0 { String::new() } else { format!("LN:i:{}", gv3.nodes[i].seq.len()) }));
            if !txt.ends_with('\n') {
                o.fail("gfa-segment-wrong", "[to_gfa_with_tags] the file does not end with a newline".into());
            }
        }
        let _ = std::fs::remove_file(&p);
        o.transitions += 4;
    }
    // JSON export
    {
        let mut out = Vec::new();
        g.to_json_rest(|d| json!(*d), &mut out, None);
        o.transitions += 1;
        check_json(&mut o, "to_json_rest(None)", &out, &gv, None);
        let rest = json!({"k": k, "name": "x\"y", "list": [1, 2, {"a": null}]});
        let mut out = Vec::new();
        g.to_json_rest(|d| json!(*d), &mut out, Some(rest.clone()));
        o.transitions += 1;
        check_json(&mut o, "to_json_rest(Some)", &out, &gv, Some(&rest));
        let mut out = Vec::new();
        g.to_json::<_, _, fn(&mut Vec<u8>)>(|d| json!(*d), &mut out);
        check_json(&mut o, "to_json", &out, &gv, None);
    }
    o
}

fn rt<T: Serialize + DeserializeOwned + PartialEq + std::fmt::Debug>(rep: &mut Report, what: &str, v: &T) {
    rep.count("values:round_trips", 1);
    rep.transitions += 1;
    let r = serde_json::to_string(v).map_err(|e| e.to_string()).and_then(|s| serde_json::from_str::<T>(&s).map_err(|e| format!("{} in {}", e, s)));
    match r {
        Ok(back) if back == *v => {}
        other => rep.violation(Violation { signature: "serde-roundtrip-differs".into(), case: json!({"value_kind": what, "value": format!("{:?}", v)}), detail: format!("{} {:?} round-trips to {:?}", what, v, other) }),
    }
}

fn kmer_patterns(k: usize) -> Vec<S> {
    let mut v = vec![];
    if k <= 5 {
        return all_strings(k).collect();
    }
    for bg in 0..4u8 {
        v.push(vec![bg; k]);
        for i in 0..k {
            for b in 0..4u8 {
                if b != bg {
                    let mut s = vec![bg; k];
                    s[i] = b;
                    v.push(s);
                }
            }
        }
    }
    v.push((0..k).map(|i| (i % 4) as u8).collect());
    v.push(Lcg(k as u64).dna(k));
    v
}

/// serde round trips of the value kinds (not graphs)
pub fn extra(_tier: &str, rep: &mut Report) {
    use debruijn::kmer::*;
    macro_rules! kt {
        ($($t:ty),*) => { $( for s in kmer_patterns(<$t>::k()) { let x: $t = mk(&s); rt(rep, stringify!($t), &x); } )* };
    }
    kt!(Kmer2, Kmer3, Kmer4, Kmer5, Kmer6, Kmer8, Kmer10, Kmer12, Kmer14, Kmer15, Kmer16, Kmer20, Kmer24, Kmer30, VarIntKmer<u64, K31>, Kmer32, Kmer40, Kmer48, Kmer64, VarIntKmer<u8, K4>);
    for v in 0..=255u8 {
        rt(rep, "Exts", &Exts::new(v));
    }
    for d in [Dir::Left, Dir::Right] {
        rep.count("values:round_trips", 1);
        let s = serde_json::to_string(&d).unwrap();
        let b: Dir = serde_json::from_str(&s).unwrap();
        if std::mem::discriminant(&b) != std::mem::discriminant(&d) {
            rep.violation(Violation { signature: "serde-roundtrip-differs".into(), case: json!({"value_kind": "Dir"}), detail: format!("{:?} -> {:?}", d, b) });
        }
    }
    let mut g = Lcg(9);
    for len in (0..=70).chain([95, 96, 97, 127, 128, 129]) {
        for _ in 0..3 {
            let s = g.dna(len);
            rt(rep, "DnaString", &DnaString::from_bytes(&s));
        }
        rt(rep, "DnaString", &DnaString::from_bytes(&vec![3u8; len]));
    }
    macro_rules! lm {
        ($($t:ty),*) => { $( for len in 0..=<$t>::max_len() { let s = g.dna(len); let x: $t = <$t>::from_slice(&s); rt(rep, stringify!($t), &x); let y: $t = <$t>::from_slice(&vec![3u8; len]); rt(rep, stringify!($t), &y); } )* };
    }
    lm!(Lmer1, Lmer2, Lmer3);
    // packed string sets
    for lens in [vec![], vec![0usize], vec![1, 31, 32], vec![33, 0, 40, 1], vec![64, 64]] {
        let mut ps = PackedDnaStringSet::new();
        let seqs: Vec<S> = lens.iter().map(|l| g.dna(*l)).collect();
        for s in &seqs {
            ps.add(s.iter());
        }
        rep.count("values:round_trips", 1);
        let js = serde_json::to_string(&ps).unwrap();
        let back: PackedDnaStringSet = serde_json::from_str(&js).unwrap();
        let same = back.len() == seqs.len() && (0..seqs.len()).all(|i| back.get(i).iter().collect::<S>() == seqs[i]);
        if !same {
            rep.violation(Violation { signature: "serde-roundtrip-differs".into(), case: json!({"value_kind": "PackedDnaStringSet", "lens": lens}), detail: "PackedDnaStringSet differs after the round trip".into() });
        }
    }
}
