use vglue::case::{GCase, Part};
use crate::pipe::BASE_FLAG_NAMES;
use vcommon::report::Report;
use vcommon::sweep::Outcome;

pub mod c01;
pub mod c02;
pub mod c03;
pub mod c04;
pub mod c09;
pub mod c18;
pub mod c20;
pub mod c19;
pub mod c06;

pub fn flag_names(prop: &str) -> Vec<&'static str> {
    let mut v: Vec<&'static str> = BASE_FLAG_NAMES.to_vec();
    let extra: &[&'static str] = match prop {
        "C01" => &c01::EXTRA_FLAGS,
        "C02" => &c02::EXTRA_FLAGS,
        "C03" => &c03::EXTRA_FLAGS,
        "C04" => &c04::EXTRA_FLAGS,
        "C09" => &c09::EXTRA_FLAGS,
        "C18" => &c18::EXTRA_FLAGS,
        "C20" => &c20::EXTRA_FLAGS,
        "C19" => &c19::EXTRA_FLAGS,
        "C06" => &c06::EXTRA_FLAGS,
        _ => &[],
    };
    v.extend_from_slice(extra);
    v
}

pub fn plan(prop: &str, tier: &str) -> Vec<Part> {
    let q = tier == "quick";
    match prop {
        "C01" => c01::plan(q),
        "C02" => c02::plan(q),
        "C03" => c03::plan(q),
        "C04" => c04::plan(q),
        "C09" => c09::plan(q),
        "C18" => c18::plan(q),
        "C20" => c20::plan(q),
        "C19" => c19::plan(q),
        "C06" => c06::plan(q),
        _ => vec![],
    }
}

pub fn run_case(c: &GCase) -> Outcome {
    match c.prop.as_str() {
        "C01" => vglue::with_kmer!(c.k, K => c01::run::<K>(c)),
        "C02" => vglue::with_kmer!(c.k, K => c02::run::<K>(c)),
        "C03" => vglue::with_kmer!(c.k, K => c03::run::<K>(c)),
        "C04" => vglue::with_kmer!(c.k, K => c04::run::<K>(c)),
        "C09" => vglue::with_kmer!(c.k, K => c09::run::<K>(c)),
        "C18" => vglue::with_kmer!(c.k, K => c18::run::<K>(c)),
        "C20" => vglue::with_kmer!(c.k, K => c20::run::<K>(c)),
        "C19" => vglue::with_kmer!(c.k, K => c19::run::<K>(c)),
        "C06" => vglue::with_kmer!(c.k, K => c06::run::<K>(c)),
        p => panic!("no such property {}", p),
    }
}

/// re-run one E2 model instance (replay); Some(list of violations) or None if not replayable
pub fn replay_model(prop: &str, case: &serde_json::Value) -> Option<Vec<String>> {
    match prop {
        "C18" => {
            let m = &case["model"];
            let lens: Vec<usize> = m["node_kmer_counts"].as_array()?.iter().map(|x| x.as_u64().unwrap() as usize).collect();
            let (_, r) = c18::e2_instance(m["k"].as_u64()? as usize, &lens, m["seed"].as_u64()?, m["node"].as_u64()? as usize);
            Some(r.discoveries.iter().map(|(n, a, s)| format!("{} after {:?}: {}", n, a, s)).collect())
        }
        _ => None,
    }
}

/// non-sweep engines (E2 searches, native runs) of a property
pub fn extra(prop: &str, tier: &str, rep: &mut Report) {
    match prop {
        "C18" => c18::extra(tier, rep),
        "C20" => c20::extra(tier, rep),
        "C19" => c19::extra(tier, rep),
        _ => {}
    }
}

pub fn finalize(prop: &str, tier: &str, rep: &mut Report) {
    match prop {
        "C01" => c01::finalize(tier, rep),
        "C02" => c02::finalize(tier, rep),
        "C03" => c03::finalize(tier, rep),
        "C04" => c04::finalize(tier, rep),
        "C09" => c09::finalize(tier, rep),
        "C18" => c18::finalize(tier, rep),
        "C20" => c20::finalize(tier, rep),
        "C19" => c19::finalize(tier, rep),
        "C06" => c06::finalize(tier, rep),
        _ => {}
    }
}

/// helper: turn an oracle result into the outcome
pub fn note(o: &mut Outcome, stage: &str, r: vglue::oracles::R) {
    o.transitions += 1;
    if let Err((sig, det)) = r {
        o.fail(&sig, format!("[{}] {}", stage, det));
    }
}
