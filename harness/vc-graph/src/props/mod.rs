use crate::case::{GCase, Part};
use crate::pipe::BASE_FLAG_NAMES;
use vcommon::report::Report;
use vcommon::sweep::Outcome;

pub mod c01;
pub mod c02;
pub mod c03;

pub fn flag_names(prop: &str) -> Vec<&'static str> {
    let mut v: Vec<&'static str> = BASE_FLAG_NAMES.to_vec();
    let extra: &[&'static str] = match prop {
        "C01" => &c01::EXTRA_FLAGS,
        "C02" => &c02::EXTRA_FLAGS,
        "C03" => &c03::EXTRA_FLAGS,
        _ => &[],
    };
    v.extend_from_slice(extra);
    v
}

pub fn plan(prop: &str, tier: &str) -> Vec<Part> {
    let q = tier == "quick";
    match prop {
        "C01" => c01::plan(q),
        "C02" => c02::plan(q),
        "C03" => c03::plan(q),
        _ => vec![],
    }
}

pub fn run_case(c: &GCase) -> Outcome {
    match c.prop.as_str() {
        "C01" => vglue::with_kmer!(c.k, K => c01::run::<K>(c)),
        "C02" => vglue::with_kmer!(c.k, K => c02::run::<K>(c)),
        "C03" => vglue::with_kmer!(c.k, K => c03::run::<K>(c)),
        p => panic!("no such property {}", p),
    }
}

pub fn finalize(prop: &str, tier: &str, rep: &mut Report) {
    match prop {
        "C01" => c01::finalize(tier, rep),
        "C02" => c02::finalize(tier, rep),
        "C03" => c03::finalize(tier, rep),
        _ => {}
    }
}

/// helper: turn an oracle result into the outcome
pub fn note(o: &mut Outcome, stage: &str, r: vglue::oracles::R) {
    o.transitions += 1;
    if let Err((sig, det)) = r {
        o.fail(&sig, format!("[{}] {}", stage, det));
    }
}
