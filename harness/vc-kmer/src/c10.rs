//! C10 - packed k-mers behave as length-K strings (E1, complete value space for K <= 8).
use crate::types::*;
use debruijn::*;
use rayon::prelude::*;
use serde_json::{json, Value};
use std::sync::atomic::{AtomicU64, Ordering};
use vcommon::report::{Report, Violation};
use vcommon::seq::*;
use vglue::{kstr, mk};

/// all single-value operations on one k-mer value; returns (checks done, failures)
pub fn ops_on_value<K: Kmer>(s: &[u8], full_slices: bool) -> (u64, Vec<String>) {
    let k = K::k();
    let mut n = 0u64;
    let mut bad: Vec<String> = vec![];
    macro_rules! chk { ($c:expr, $($a:tt)*) => { n += 1; if !($c) { if bad.len() < 3 { bad.push(format!($($a)*)); } } } }
    let a: K = K::from_bytes(s);
    chk!(kstr(&a) == s, "from_bytes/get: {:?}", kstr(&a));
    chk!(a.len() == k && !a.is_empty(), "len/is_empty");
    let asc: Vec<u8> = s.iter().map(|b| b"ACGT"[*b as usize]).collect();
    let lower: Vec<u8> = s.iter().map(|b| b"acgt"[*b as usize]).collect();
    chk!(K::from_ascii(&asc) == a && K::from_ascii(&lower) == a, "from_ascii");
    chk!(a.to_string().as_bytes() == &asc[..], "to_string {}", a.to_string());
    // longer input: only the first K are used
    let mut longer = s.to_vec();
    longer.extend_from_slice(&[3, 3, 3]);
    chk!(K::from_bytes(&longer) == a, "from_bytes of a longer slice");
    let mut longer_asc = asc.clone();
    longer_asc.extend_from_slice(b"TTg");
    chk!(K::from_ascii(&longer_asc) == a, "from_ascii of a longer slice must use the first K letters, got {}", K::from_ascii(&longer_asc).to_string());
    chk!(format!("{:?}", a).as_bytes() == &asc[..], "Debug rendering {:?}", a);
    chk!(a.iter().collect::<Vec<u8>>() == s, "Mer::iter");
    if k <= 32 {
        let r = rank(s);
        chk!(a.to_u64() == r, "to_u64 {} want {}", a.to_u64(), r);
        chk!(K::from_u64(r) == a && kstr(&K::from_u64(r)) == s, "from_u64");
    }
    let r = a.rc();
    chk!(kstr(&r) == rc(s) && r == mk::<K>(&rc(s)), "rc {:?}", kstr(&r));
    let at = s.iter().filter(|b| **b == 0 || **b == 3).count() as u32;
    chk!(a.at_count() == at && a.gc_count() == k as u32 - at, "at/gc count {} {}", a.at_count(), a.gc_count());
    for b in 0..4u8 {
        let e = a.extend_right(b);
        let mut m = s[1..].to_vec();
        m.push(b);
        chk!(kstr(&e) == m && e == mk::<K>(&m), "extend_right {}", b);
        chk!(a.extend(b, Dir::Right) == e, "extend(Right)");
        let e = a.extend_left(b);
        let mut m = vec![b];
        m.extend(&s[..k - 1]);
        chk!(kstr(&e) == m && e == mk::<K>(&m), "extend_left {}", b);
        chk!(a.extend(b, Dir::Left) == e, "extend(Left)");
    }
    for pos in 0..k {
        for b in 0..4u8 {
            let mut x = a;
            x.set_mut(pos, b);
            let mut m = s.to_vec();
            m[pos] = b;
            chk!(kstr(&x) == m && x == mk::<K>(&m), "set_mut({}, {})", pos, b);
            chk!(a.set(pos, b) == x, "set");
        }
    }
    // packed runs: every pos, every run length 1..=min(32, K-pos), four value words
    let ws = words();
    for pos in 0..k {
        let maxrun = std::cmp::min(32, k - pos);
        for nb in 1..=maxrun {
            if !full_slices && !(nb <= 2 || nb == maxrun || nb == maxrun - 1 || nb % 7 == 0 || (pos + nb) % 16 == 0) {
                continue;
            }
            for (vals, w) in &ws {
                let mut x = a;
                x.set_slice_mut(pos, nb, *w);
                let mut m = s.to_vec();
                m[pos..pos + nb].copy_from_slice(&vals[..nb]);
                chk!(kstr(&x) == m && x == mk::<K>(&m), "set_slice_mut(pos {}, n {}, word {:#018x}) gives {}", pos, nb, w, ascii(&kstr(&x)));
                chk!(a.set_slice(pos, nb, *w) == x, "set_slice");
            }
        }
    }
    // all-extensions helper
    for ev in [0u8, 0xff, 0x21, 0x84, 0x5a] {
        let e = Exts::new(ev);
        for (dir, sh) in [(Dir::Left, 0), (Dir::Right, 4)] {
            let want: Vec<S> = (0..4u8).filter(|b| ev >> (sh + b) & 1 == 1).map(|b| match dir { Dir::Left => { let mut m = vec![b]; m.extend(&s[..k - 1]); m } Dir::Right => { let mut m = s[1..].to_vec(); m.push(b); m } }).collect();
            let got: Vec<S> = a.get_extensions(e, dir).iter().map(|x| kstr(x)).collect();
            chk!(got == want, "get_extensions({:#x}, {:?})", ev, dir);
        }
    }
    (n, bad)
}

fn pair_ops<K: Kmer>(x: &[u8], y: &[u8]) -> Option<String> {
    let (a, b): (K, K) = (mk(x), mk(y));
    let hd = x.iter().zip(y.iter()).filter(|(p, q)| p != q).count() as u32;
    if a.hamming_dist(b) != hd || b.hamming_dist(a) != hd {
        return Some(format!("hamming_dist({}, {}) = {}, strings differ at {} positions", ascii(x), ascii(y), a.hamming_dist(b), hd));
    }
    None
}

fn bulk_ops<K: Kmer>(g: &mut Lcg) -> (u64, Vec<String>) {
    let k = K::k();
    let mut n = 0;
    let mut bad = vec![];
    for len in [0usize, 1, k - 1, k, k + 1, k + 5, 2 * k + 3, 100] {
        let s = g.dna(len);
        let asc: Vec<u8> = s.iter().enumerate().map(|(i, b)| if i % 3 == 0 { b"acgt"[*b as usize] } else { b"ACGT"[*b as usize] }).collect();
        let want: Vec<S> = windows(&s, k);
        let got: Vec<S> = K::kmers_from_bytes(&s).iter().map(|x| kstr(x)).collect();
        let got2: Vec<S> = K::kmers_from_ascii(&asc).iter().map(|x| kstr(x)).collect();
        n += 2;
        if got != want {
            bad.push(format!("kmers_from_bytes(len {}) yields {} k-mers, want {}", len, got.len(), want.len()));
        }
        if got2 != want {
            bad.push(format!("kmers_from_ascii(len {}) yields {} k-mers, want {}", len, got2.len(), want.len()));
        }
    }
    (n, bad)
}

pub fn check(tier: &str, rep: &mut Report) {
    rep.engine = "E1 bounded-exhaustive exploration of every k-mer operation over the complete value space (K<=8) / pattern families (K>=10) vs plain strings".into();
    let quick = tier == "quick";
    let checks = AtomicU64::new(0);
    let mut types = vec![];
    for_all_kmer_types!(K, name => {
        let k = K::k();
        // the K of a type is the one its name promises
        let nominal: usize = name.trim_start_matches("VarIntKmer<u64,K").trim_start_matches("VarIntKmer<u8,K").trim_start_matches("Kmer").trim_end_matches('>').parse().expect("type name carries K");
        if nominal != k || K::empty().len() != k {
            rep.violation(Violation { signature: "kmer-type-has-wrong-k".into(), case: json!({"type": name, "value": Value::Null, "nominal_k": nominal}), detail: format!("{}: k() = {}, len() = {}, the type is documented as a {}-mer", name, k, K::empty().len(), nominal) });
        }
        let (vals, complete) = values(k, if quick { 8 } else { 12 }, true);
        let full_slices = true;
        let fails: Vec<(S, String)> = vals.par_iter().flat_map_iter(|s| {
            let r = std::panic::catch_unwind(|| ops_on_value::<K>(s, full_slices));
            let (n, bad) = match r { Ok(x) => x, Err(_) => (1, vec!["operation panicked".to_string()]) };
            checks.fetch_add(n, Ordering::Relaxed);
            bad.into_iter().map(move |b| (s.clone(), b))
        }).collect();
        // pairs: all pairs for K <= 5 (quick: K <= 4), else value x probe family
        let probes: Vec<&S> = if k <= (if quick { 4 } else { 5 }) { vals.iter().collect() } else { vals.iter().step_by((vals.len() / 300).max(1)).collect() };
        let pfails: Vec<(S, String)> = vals.par_iter().flat_map_iter(|x| {
            checks.fetch_add(probes.len() as u64, Ordering::Relaxed);
            probes.iter().filter_map(|y| pair_ops::<K>(x, y).map(|m| (x.clone(), m))).take(1).collect::<Vec<_>>()
        }).collect();
        let (bn, bbad) = bulk_ops::<K>(&mut Lcg(77));
        checks.fetch_add(bn, Ordering::Relaxed);
        rep.states += vals.len() as u64;
        rep.evaluations += vals.len() as u64;
        rep.count(&format!("{}:values", name), vals.len() as u64);
        types.push(json!({"type": name, "K": k, "values": vals.len(), "complete_value_space": complete}));
        if !complete { rep.exhaustive = false; }
        rep.nontrivial += vals.iter().filter(|s| s.iter().any(|b| *b != s[0])).count() as u64;
        for (s, m) in fails.into_iter().chain(pfails).take(5) {
            rep.violation(Violation { signature: "kmer-op-differs-from-string".into(), case: json!({"type": name, "value": ascii(&s)}), detail: format!("{} value {}: {}", name, ascii(&s), m) });
        }
        for m in bbad.into_iter().take(2) {
            rep.violation(Violation { signature: "kmer-op-differs-from-string".into(), case: json!({"type": name, "value": Value::Null, "bulk": true}), detail: format!("{}: {}", name, m) });
        }
    });
    rep.transitions = checks.load(Ordering::Relaxed);
    rep.extra.insert("types".into(), json!(types));
    rep.sample(json!({"type": "Kmer5", "value": "ACGTA", "ops": "from_bytes from_ascii to_string to_u64 from_u64 rc at/gc extend_left/right x4 set_mut x(K*4) set_slice_mut x(pos,run,4 words) get_extensions"}));
    rep.sample(json!({"type": "Kmer48", "value": "A...A with T at 17 and C at 40 (2-hot pattern on A background)"}));
    rep.rule = "all 20 instantiable k-mer types; K <= 8 (thorough: K <= 12): ALL 4^K values x every operation x every in-range argument (set_mut: all pos x base; set_slice_mut: all pos x all run lengths 1..=min(32,K-pos) x 4 value words incl. garbage below the run; extend both sides x 4 bases; rc; rank both ways; AT/GC; text; get_extensions; hamming: all pairs for K<=4(5), else value x 300-probe family); K >= 10: pattern family P(K) = every value with <= 2 positions different from a constant background (4 backgrounds) + counter/LCG/palindromic patterns (complete over which lanes an operation touches, not over content: exhaustive=false for those types); distinct_nontrivial = values that are not homopolymers".into();
    rep.assumptions.push("K >= 10: coverage argument (every operation is a lane-wise network of shifts/masks), not exhaustive in content".into());
    rep.assumptions.push("to_u64/from_u64 only for K <= 32".into());
    rep.floor("Kmer8:values", 65536);
}

pub fn replay(c: &Value) -> Vec<String> {
    let name = c["type"].as_str().unwrap_or("");
    match c["value"].as_str() {
        Some(v) => {
            let s = from_ascii(v);
            with_kmer_named!(name, K => ops_on_value::<K>(&s, true).1)
        }
        None => with_kmer_named!(name, K => bulk_ops::<K>(&mut Lcg(77)).1),
    }
}
