//! C11 - k-mer equality, order and hash are those of the string, whatever route built the value.
//! E2: stateright BFS over operation histories; state = (real k-mer, reference string).
use crate::types::*;
use boomphf::hashmap::BoomHashMap;
use debruijn::*;
use serde_json::{json, Value};
use stateright::{Model, Property};
use std::collections::hash_map::DefaultHasher;
use std::collections::{BTreeMap, BTreeSet};
use std::hash::{Hash, Hasher};
use std::sync::{Arc, Mutex};
use vcommon::report::{Report, Violation};
use vcommon::seq::*;
use vglue::{kstr, mk};

fn h<T: Hash>(t: &T) -> u64 {
    let mut x = DefaultHasher::new();
    t.hash(&mut x);
    x.finish()
}

#[derive(Clone, Debug, PartialEq, Eq, Hash)]
pub enum Act {
    ExtL(u8),
    ExtR(u8),
    Rc,
    MinRc,
    Set(usize, u8),
    SetSlice(usize, usize, usize),
    FromBytes,
    FromAscii,
    FromU64,
    ViaKmersFromBytes,
}

#[derive(Clone, Debug, PartialEq, Eq, Hash)]
pub struct KS<K: Kmer> {
    pub k: K,
    pub m: S,
    pub depth: u8,
}

pub struct KM<K: Kmer> {
    pub bound: Option<u8>,
    pub positions: Vec<usize>,
    pub runs: Vec<usize>,
    pub probes: Arc<Vec<(K, S)>>,
    pub reached: Arc<Vec<Mutex<Vec<(K, S)>>>>,
    pub inits: Vec<S>,
}

impl<K: Kmer + Send + Sync + 'static> Model for KM<K> {
    type State = KS<K>;
    type Action = Act;
    fn init_states(&self) -> Vec<KS<K>> {
        let k = K::k();
        let mut v = vec![KS { k: K::empty(), m: vec![0; k], depth: 0 }];
        for s in &self.inits {
            // three different routes to the same start string
            v.push(KS { k: K::from_bytes(s), m: s.clone(), depth: 0 });
            let mut x = K::empty();
            for b in s {
                x = x.extend_right(*b);
            }
            v.push(KS { k: x, m: s.clone(), depth: 0 });
            let mut y = K::empty();
            for b in s.iter().rev() {
                y = y.extend_left(*b);
            }
            v.push(KS { k: y, m: s.clone(), depth: 0 });
        }
        v
    }
    fn actions(&self, s: &KS<K>, a: &mut Vec<Act>) {
        if let Some(b) = self.bound {
            if s.depth >= b {
                return;
            }
        }
        for b in 0..4u8 {
            a.push(Act::ExtL(b));
            a.push(Act::ExtR(b));
        }
        a.push(Act::Rc);
        a.push(Act::MinRc);
        for &p in &self.positions {
            for b in [0u8, 3, 1] {
                a.push(Act::Set(p, b));
            }
            for &n in &self.runs {
                if p + n <= K::k() && n <= 32 {
                    for w in 0..3 {
                        a.push(Act::SetSlice(p, n, w));
                    }
                }
            }
        }
        a.push(Act::FromBytes);
        a.push(Act::FromAscii);
        if K::k() <= 32 {
            a.push(Act::FromU64);
        }
        a.push(Act::ViaKmersFromBytes);
    }
    fn next_state(&self, s: &KS<K>, act: Act) -> Option<KS<K>> {
        let k = K::k();
        let mut t = s.clone();
        if self.bound.is_some() {
            t.depth += 1;
        }
        let ws = words();
        match act {
            Act::ExtL(b) => {
                t.k = s.k.extend_left(b);
                t.m.insert(0, b);
                t.m.pop();
            }
            Act::ExtR(b) => {
                t.k = s.k.extend_right(b);
                t.m.remove(0);
                t.m.push(b);
            }
            Act::Rc => {
                t.k = s.k.rc();
                t.m = rc(&s.m);
            }
            Act::MinRc => {
                t.k = s.k.min_rc();
                t.m = std::cmp::min(s.m.clone(), rc(&s.m));
            }
            Act::Set(p, b) => {
                t.k.set_mut(p, b);
                t.m[p] = b;
            }
            Act::SetSlice(p, n, w) => {
                t.k.set_slice_mut(p, n, ws[w].1);
                t.m[p..p + n].copy_from_slice(&ws[w].0[..n]);
            }
            Act::FromBytes => t.k = K::from_bytes(&kstr(&s.k)),
            Act::FromAscii => t.k = K::from_ascii(s.k.to_string().as_bytes()),
            Act::FromU64 => t.k = K::from_u64(s.k.to_u64()),
            Act::ViaKmersFromBytes => {
                let mut padded = vec![2u8];
                padded.extend(kstr(&s.k));
                padded.push(1);
                t.k = K::kmers_from_bytes(&padded)[1];
            }
        }
        let _ = k;
        Some(t)
    }
    fn properties(&self) -> Vec<Property<Self>> {
        vec![Property::always("eq-ord-hash-are-the-strings", |m: &KM<K>, s: &KS<K>| {
            // called once per unique state: record it for the collection laws
            let shard = (h(&std::thread::current().id()) % m.reached.len() as u64) as usize;
            m.reached[shard].lock().unwrap().push((s.k, s.m.clone()));
            let canon: K = K::from_bytes(&s.m);
            if s.k != canon || h(&s.k) != h(&canon) || kstr(&s.k) != s.m || s.k.cmp(&canon) != std::cmp::Ordering::Equal {
                return false;
            }
            if K::k() <= 32 && s.k.to_u64() != rank(&s.m) {
                return false;
            }
            for (pk, ps) in m.probes.iter() {
                if s.k.cmp(pk) != s.m.cmp(ps) || (s.k == *pk) != (s.m == *ps) || s.k.partial_cmp(pk) != Some(s.m.cmp(ps)) {
                    return false;
                }
                // equal strings must hash equal; different strings must not collide (64-bit SipHash: a collision among a few
                // hundred probes has probability ~2^-50, so a collision means the hash ignores part of the string)
                if (s.m == *ps) != (h(&s.k) == h(pk)) {
                    return false;
                }
            }
            true
        })]
    }
}

fn model_for<K: Kmer + Send + Sync + 'static>(quick: bool) -> (KM<K>, Arc<Vec<Mutex<Vec<(K, S)>>>>) {
    let k = K::k();
    let closing = k <= if quick { 6 } else { 8 };
    let (vals, _) = values(k, 4, false);
    let step = (vals.len() / 200).max(1);
    let probes: Vec<(K, S)> = vals.iter().step_by(step).map(|s| (mk::<K>(s), s.clone())).collect();
    let mut positions: Vec<usize> = if closing { (0..k).collect() } else { vec![0, 1, k / 2, k - 2, k - 1, 15, 16, 31, 32] };
    positions.retain(|p| *p < k);
    positions.sort();
    positions.dedup();
    let mut runs: Vec<usize> = vec![1, 2, k / 2, k - 1, k, 16, 31, 32];
    runs.retain(|n| *n >= 1 && *n <= k && *n <= 32);
    runs.sort();
    runs.dedup();
    let mut inits: Vec<S> = vec![];
    for i in [0, k / 2, k - 1] {
        for (bg, b) in [(0u8, 3u8), (3, 0), (1, 2)] {
            let mut s = vec![bg; k];
            s[i] = b;
            inits.push(s);
        }
    }
    let reached: Arc<Vec<Mutex<Vec<(K, S)>>>> = Arc::new((0..64).map(|_| Mutex::new(vec![])).collect());
    let bound = if closing { None } else { Some(if quick { 3 } else { 4 }) };
    (KM { bound, positions, runs, probes: Arc::new(probes), reached: reached.clone(), inits }, reached)
}

/// after the search: sorting / dedup / binary search / perfect-hash lookup on the reached values
fn collection_laws<K: Kmer + Send + Sync>(reached: &[(K, S)]) -> Vec<String> {
    let mut bad = vec![];
    let mut by_k: Vec<(K, S)> = reached.to_vec();
    by_k.sort_by(|a, b| a.0.cmp(&b.0));
    let mut by_s: Vec<(K, S)> = reached.to_vec();
    by_s.sort_by(|a, b| a.1.cmp(&b.1));
    if by_k.iter().map(|x| &x.1).ne(by_s.iter().map(|x| &x.1)) {
        bad.push("sorting the k-mers and sorting the strings give different orders".to_string());
    }
    let mut dk: Vec<K> = by_k.iter().map(|x| x.0).collect();
    dk.dedup();
    let ds: BTreeSet<&S> = reached.iter().map(|x| &x.1).collect();
    if dk.len() != ds.len() {
        bad.push(format!("dedup leaves {} k-mers but {} distinct strings", dk.len(), ds.len()));
    }
    // grouping
    let mut groups: BTreeMap<K, BTreeSet<&S>> = BTreeMap::new();
    for (k, s) in reached {
        groups.entry(*k).or_default().insert(s);
    }
    if groups.values().any(|g| g.len() != 1) {
        bad.push("one k-mer value groups several strings".to_string());
    }
    // binary search + perfect-hash lookup, keyed by canonical constructions, queried with the route-built values
    let canon: Vec<K> = ds.iter().map(|s| mk::<K>(s)).collect();
    let idx: Vec<usize> = (0..canon.len()).collect();
    let map = BoomHashMap::new(canon.clone(), idx);
    let sorted_strings: Vec<&S> = ds.iter().cloned().collect();
    for (k, s) in reached.iter().step_by((reached.len() / 20000).max(1)) {
        match dk.binary_search(k) {
            Ok(i) if kstr(&dk[i]) == *s => {}
            _ => {
                bad.push(format!("binary search for {} fails", ascii(s)));
                break;
            }
        }
        let want = sorted_strings.binary_search(&s).ok();
        let got = map.get(k).and_then(|i| if kstr(&canon[*i]) == *s { Some(*i) } else { None });
        if got.is_none() || want.is_none() {
            bad.push(format!("perfect-hash lookup of route-built {} fails", ascii(s)));
            break;
        }
    }
    bad
}

pub fn run_type<K: Kmer + Send + Sync + 'static>(name: &str, quick: bool, rep: &mut Report) {
    let (model, reached) = model_for::<K>(quick);
    let desc = json!({"engine": "E2", "type": name, "K": K::k(), "bound": model.bound, "positions": model.positions, "runs": model.runs, "probes": model.probes.len()});
    let closing = model.bound.is_none();
    let r = vcommon::e2::explore_opt(model, None);
    vcommon::e2::record(rep, name, desc.clone(), &r, &|_| "kmer-eq-ord-hash".to_string());
    let reached: Vec<(K, S)> = reached.iter().flat_map(|m| m.lock().unwrap().clone()).collect();
    let distinct: BTreeSet<&S> = reached.iter().map(|x| &x.1).collect();
    rep.count(&format!("{}:distinct_strings_reached", name), distinct.len() as u64);
    // unique states carry distinct (value, string, depth); a string met in >= 2 of them was reached by different histories
    let multi = {
        let mut c: BTreeMap<&S, u32> = BTreeMap::new();
        for (_, s) in &reached {
            *c.entry(s).or_insert(0) += 1;
        }
        c.values().filter(|v| **v >= 2).count()
    };
    rep.nontrivial += multi as u64;
    rep.count(&format!("{}:strings_reached_by_several_histories", name), multi as u64);
    if closing && distinct.len() as u64 != count_strings(K::k()) {
        rep.machinery_errors.push(format!("{}: closing search reached {} of {} strings", name, distinct.len(), count_strings(K::k())));
    }
    let laws = std::panic::catch_unwind(std::panic::AssertUnwindSafe(|| collection_laws(&reached))).unwrap_or_else(|_| vec!["sorting / grouping / perfect-hash construction over the reached k-mers panicked (e.g. distinct k-mers that always collide)".to_string()]);
    for m in laws.into_iter().take(2) {
        rep.violation(Violation { signature: "kmer-collection-law".into(), case: json!({"model": desc, "post": "collection laws"}), detail: format!("{}: {}", name, m) });
    }
}

pub fn check(tier: &str, rep: &mut Report) {
    rep.engine = "E2 explicit-state search (stateright BFS) over k-mer operation histories; state = (real k-mer, reference string)".into();
    let quick = tier == "quick";
    for_all_kmer_types!(K, name => run_type::<K>(name, quick, rep));
    rep.sample(json!({"type": "Kmer5", "history": ["ExtR(3)", "Rc", "SetSlice(1, 2, 2)", "FromU64"], "invariant": "raw value == from_bytes(string); cmp/eq/hash vs 200 probes"}));
    rep.sample(json!({"type": "Kmer48", "history": ["Set(47, 3)", "MinRc", "ExtL(1)"]}));
    rep.rule = "per k-mer type a stateright model: actions {extend_left/right x 4 bases, rc, min_rc, set_mut at boundary positions x 3 bases, set_slice_mut at boundary positions x run lengths x 3 value words, from_bytes / from_ascii / from_u64 / kmers_from_bytes re-entry}; init states = empty() and nine 1-hot strings each built by three different routes; K <= 6 (thorough: 8): search runs to CLOSURE (all 4^K strings reached, all positions); larger K: depth bound 3 (thorough 4) with depth in the state key. Invariant on every state: raw value equals the canonical construction of its string (one representation per string), Hash equal, cmp/partial_cmp/eq against ~200 probe k-mers equal the string comparison, to_u64 == rank. After the search: sort/dedup/group/binary-search/BoomHashMap lookup on all reached values agree with the strings. distinct_nontrivial = strings reached by >= 2 distinct histories".into();
    rep.assumptions.push("for K >= 8 (10) histories are depth-bounded and positions restricted to block/boundary positions".into());
    rep.exhaustive = false;
    rep.extra.insert("exhaustive_note".into(), json!("closing searches (small K) are complete; depth-bounded searches are exhaustive within their bound and action alphabet"));
}

pub fn replay(c: &Value) -> Vec<String> {
    let name = c["model"]["type"].as_str().unwrap_or("");
    let quick = c["model"]["bound"].as_u64().map(|b| b <= 3).unwrap_or(true);
    let mut rep = Report::new("C11", "quick", "replay");
    with_kmer_named!(name, K => run_type::<K>(name, quick, &mut rep));
    rep.violations.iter().map(|v| v.detail.clone()).collect()
}
