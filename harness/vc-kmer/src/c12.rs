//! C12 - reverse complement is coherent across k-mers, Lmers, DnaString, slices and Exts (E1).
use crate::types::*;
use debruijn::dna_string::DnaString;
use debruijn::vmer::Lmer;
use debruijn::*;
use rayon::prelude::*;
use serde_json::{json, Value};
use std::collections::hash_map::DefaultHasher;
use std::hash::{Hash, Hasher};
use vcommon::refmodel::*;
use vcommon::report::{Report, Violation};
use vcommon::seq::*;
use vglue::{kstr, mk};

fn h<T: Hash>(t: &T) -> u64 {
    let mut x = DefaultHasher::new();
    t.hash(&mut x);
    x.finish()
}

/// k-mer level laws on one value
fn kmer_laws<K: Kmer>(s: &[u8]) -> (u64, Vec<String>) {
    let mut n = 0u64;
    let mut bad = vec![];
    macro_rules! chk { ($c:expr, $($a:tt)*) => { n += 1; if !($c) { if bad.len() < 3 { bad.push(format!($($a)*)); } } } }
    let k = K::k();
    let a: K = mk(s);
    let r = a.rc();
    chk!((0..k).all(|i| r.get(i) == 3 - a.get(k - 1 - i)), "rc position law");
    chk!(r.rc() == a && h(&r.rc()) == h(&a), "rc involution");
    let want = std::cmp::min(s.to_vec(), rc(s));
    chk!(kstr(&a.min_rc()) == want && a.min_rc() == r.min_rc(), "min_rc {:?}", kstr(&a.min_rc()));
    let (m, f) = a.min_rc_flip();
    chk!(kstr(&m) == want, "min_rc_flip value");
    chk!(if s.to_vec() == rc(s) { true } else { f == (rc(s) < s.to_vec()) }, "min_rc_flip flag {} for {}", f, ascii(s));
    chk!(kstr(&if f { a.rc() } else { a }) == want, "min_rc_flip flag inconsistent with value");
    chk!(a.is_palindrome() == (s.to_vec() == rc(s)), "is_palindrome {}", a.is_palindrome());
    chk!(k % 2 == 0 || !a.is_palindrome(), "odd K palindrome");
    (n, bad)
}

/// container level laws for one base sequence: DnaString, slices (offsets, nesting), Lmers, k-mer extraction
fn seq_laws(s: &[u8]) -> (u64, Vec<String>) {
    let mut n = 0u64;
    let mut bad = vec![];
    macro_rules! chk { ($c:expr, $($a:tt)*) => { n += 1; if !($c) { if bad.len() < 3 { bad.push(format!($($a)*)); } } } }
    let len = s.len();
    let d = DnaString::from_bytes(s);
    let r = d.rc();
    chk!(r.to_bytes() == rc(s) && r == DnaString::from_bytes(&rc(s)) && h(&r) == h(&DnaString::from_bytes(&rc(s))), "DnaString::rc (len {})", len);
    chk!(r.rc() == d, "DnaString rc involution (len {})", len);
    // slices at offsets, rc nesting
    for off in [0usize, 1, 2, 31, 32, 33] {
        let mut backing: S = (0..off).map(|i| ((i * 3 + 1) % 4) as u8).collect();
        backing.extend_from_slice(s);
        backing.extend_from_slice(&[2, 0, 1]);
        let bd = DnaString::from_bytes(&backing);
        let sl = bd.slice(off, off + len);
        let mut cur = sl.clone();
        let mut model = s.to_vec();
        for depth in 1..=3 {
            cur = cur.rc();
            model = rc(&model);
            chk!(cur.bytes() == model && cur.len() == len, "slice rc nesting depth {} (offset {}, len {})", depth, off, len);
            chk!((0..len).all(|i| cur.get(i) == model[i]), "slice rc get (offset {}, depth {})", off, depth);
            // a sub-interval of a reverse-complemented view is the sub-interval of the reverse-complemented string
            if len >= 2 {
                for (a, b) in [(1, len), (0, len - 1), (len / 2, len), (1, len - 1)] {
                    if a <= b {
                        chk!(cur.slice(a, b).bytes() == model[a..b], "slice({}, {}) of a view reverse-complemented {} time(s) (offset {}, len {})", a, b, depth, off, len);
                    }
                }
            }
        }
        // commutation with k-mer extraction and with extension sets, for several K
        macro_rules! kx { ($($t:ty),*) => { $( {
            let k = <$t>::k();
            if len >= k {
                let fwd: Vec<S> = sl.iter_kmers::<$t>().map(|x| kstr(&x)).collect();
                let rcs = sl.rc();
                let rev: Vec<S> = rcs.iter_kmers::<$t>().map(|x| kstr(&x)).collect();
                chk!(fwd.len() == len - k + 1 && rev.len() == fwd.len(), "iter_kmers count (K={}, len {})", k, len);
                chk!((0..fwd.len()).all(|i| rev[i] == rc(&fwd[len - k - i])), "i-th k-mer of rc == rc of (n-K-i)-th k-mer (K={}, offset {}, len {})", k, off, len);
                chk!((0..fwd.len()).all(|i| kstr(&rcs.get_kmer::<$t>(i)) == rc(&fwd[len - k - i])), "get_kmer on rc slice (K={}, offset {}, len {})", k, off, len);
                // kmer+exts iterator of rc(x) == reversed, Exts::rc-ed list
                let e1: Vec<($t, Exts)> = d.iter_kmer_exts::<$t>(Exts::empty()).collect();
                let e2: Vec<($t, Exts)> = r.iter_kmer_exts::<$t>(Exts::empty()).collect();
                chk!(e1.len() == e2.len() && (0..e1.len()).all(|i| e2[i].0 == e1[e1.len() - 1 - i].0.rc() && e2[i].1 == e1[e1.len() - 1 - i].1.rc()), "iter_kmer_exts of rc == reversed rc-ed list (K={}, len {})", k, len);
            }
        } )* } }
        if off == 0 || off == 31 || off == 33 {
            kx!(debruijn::kmer::Kmer3, debruijn::kmer::Kmer4, debruijn::kmer::Kmer5, debruijn::kmer::Kmer8, debruijn::kmer::Kmer15, debruijn::kmer::Kmer16, alias::Kmer31Alias, debruijn::kmer::Kmer32, debruijn::kmer::Kmer40, debruijn::kmer::Kmer64);
        }
    }
    // Lmers of every capacity that can hold the sequence
    macro_rules! lm { ($($n:expr),*) => { $( {
        type L = Lmer<[u64; $n]>;
        if len <= L::max_len() {
            let l = L::from_slice(s);
            let lr = l.rc();
            chk!(lr.len() == len && (0..len).all(|i| lr.get(i) == 3 - s[len - 1 - i]), "Lmer<{}>::rc position law (len {})", $n, len);
            chk!(lr == L::from_slice(&rc(s)) && h(&lr) == h(&L::from_slice(&rc(s))), "Lmer<{}>::rc raw equality with from_slice(rc) (len {})", $n, len);
            chk!(lr.rc() == l, "Lmer<{}> rc involution (len {})", $n, len);
        }
    } )* } }
    lm!(1, 2, 3, 4, 5, 6);
    (n, bad)
}

// the K=31 type has no alias in the crate; give it one for the macro above
mod alias {
    pub type Kmer31Alias = debruijn::kmer::VarIntKmer<u64, debruijn::kmer::K31>;
}

pub fn check(tier: &str, rep: &mut Report) {
    rep.engine = "E1 bounded-exhaustive exploration of reverse-complement laws over all k-mer types, Lmer capacities, DnaString/slice offsets and all 256 extension sets".into();
    let quick = tier == "quick";
    let mut checks = 0u64;
    // k-mers
    for_all_kmer_types!(K, name => {
        let (vals, complete) = values(K::k(), if quick { 8 } else { 12 }, true);
        let res: Vec<(u64, Vec<(S, String)>)> = vals.par_iter().map(|s| { let (n, b) = std::panic::catch_unwind(|| kmer_laws::<K>(s)).unwrap_or((1, vec!["panicked".to_string()])); (n, b.into_iter().map(|m| (s.clone(), m)).collect()) }).collect();
        rep.states += vals.len() as u64;
        rep.evaluations += vals.len() as u64;
        rep.nontrivial += vals.iter().filter(|s| is_pal(s) || rc(s) < **s).count() as u64;
        rep.count(&format!("{}:values", name), vals.len() as u64);
        rep.count(&format!("{}:palindromes", name), vals.iter().filter(|s| is_pal(s)).count() as u64);
        if !complete { rep.exhaustive = false; }
        for (n, b) in res {
            checks += n;
            for (s, m) in b.into_iter().take(1) {
                rep.violation(Violation { signature: "rc-law-kmer".into(), case: json!({"kind": "kmer", "type": name, "value": ascii(&s)}), detail: format!("{} value {}: {}", name, ascii(&s), m) });
            }
        }
    });
    // all 256 extension sets
    for v in 0..=255u8 {
        let e = Exts::new(v);
        let (l, r) = decode_exts(v);
        let want_rc = encode_exts(&comp_bases(&r), &comp_bases(&l));
        let want_c = encode_exts(&comp_bases(&l), &comp_bases(&r));
        let want_rev = encode_exts(&r, &l);
        checks += 4;
        if e.rc().val != want_rc || e.complement().val != want_c || e.reverse().val != want_rev || e.rc().rc() != e {
            rep.violation(Violation { signature: "rc-law-exts".into(), case: json!({"kind": "exts", "value": v}), detail: format!("Exts {:#010b}: rc {:#010b} (want {:#010b}), complement {:#010b} (want {:#010b}), reverse {:#010b} (want {:#010b})", v, e.rc().val, want_rc, e.complement().val, want_c, e.reverse().val, want_rev) });
        }
    }
    // the extension-set algebra against plain set semantics (all 256 values, all 65 536 pairs for the binary operations)
    {
        let bits = |l: &Bases, r: &Bases| encode_exts(l, r);
        let mut bad: Vec<String> = vec![];
        for v in 0..=255u8 {
            let e = Exts::new(v);
            let (l, r) = decode_exts(v);
            for (dir, side) in [(Dir::Left, &l), (Dir::Right, &r)] {
                let want_list: Vec<u8> = (0..4u8).filter(|b| side[*b as usize]).collect();
                checks += 6;
                if e.get(dir) != want_list { bad.push(format!("Exts({:#010b}).get({:?}) = {:?}", v, dir, e.get(dir))); }
                if e.num_ext_dir(dir) as usize != want_list.len() { bad.push(format!("Exts({:#010b}).num_ext_dir({:?})", v, dir)); }
                if (0..4u8).any(|b| e.has_ext(dir, b) != side[b as usize]) { bad.push(format!("Exts({:#010b}).has_ext({:?}, _)", v, dir)); }
                let uniq = if want_list.len() == 1 { Some(want_list[0]) } else { None };
                if e.get_unique_extension(dir) != uniq { bad.push(format!("Exts({:#010b}).get_unique_extension({:?}) = {:?}", v, dir, e.get_unique_extension(dir))); }
                // single_dir: that side's bases moved into the LEFT nibble
                if e.single_dir(dir).val != bits(side, &[false; 4]) { bad.push(format!("Exts({:#010b}).single_dir({:?}) = {:#010b}", v, dir, e.single_dir(dir).val)); }
                for b in 0..4u8 {
                    let mut s2 = *side;
                    s2[b as usize] = true;
                    let want = match dir { Dir::Left => bits(&s2, &r), Dir::Right => bits(&l, &s2) };
                    if e.set(dir, b).val != want { bad.push(format!("Exts({:#010b}).set({:?}, {})", v, dir, b)); }
                }
            }
            if e.num_exts_l() != e.num_ext_dir(Dir::Left) || e.num_exts_r() != e.num_ext_dir(Dir::Right) { bad.push(format!("Exts({:#010b}).num_exts_l/r", v)); }
            for w in 0..=255u8 {
                let f = Exts::new(w);
                let (fl, fr) = decode_exts(w);
                checks += 3;
                if e.add(f).val != bits(&or_bases(&l, &fl), &or_bases(&r, &fr)) { bad.push(format!("Exts({:#010b}).add({:#010b})", v, w)); }
                if Exts::merge(e, f).val != bits(&l, &fr) { bad.push(format!("Exts::merge({:#010b}, {:#010b}) = {:#010b}", v, w, Exts::merge(e, f).val)); }
                // from_single_dirs takes two single-direction sets (left nibbles)
                if v < 16 && w < 16 && Exts::from_single_dirs(e, f).val != bits(&l, &fl) { bad.push(format!("Exts::from_single_dirs({:#06b}, {:#06b})", v, w)); }
            }
        }
        for a in 0..4u8 {
            for b in 0..4u8 {
                let mut l = [false; 4];
                let mut r = [false; 4];
                l[a as usize] = true;
                r[b as usize] = true;
                checks += 3;
                if Exts::mk(a, b).val != bits(&l, &r) || Exts::mk_left(a).val != bits(&l, &[false; 4]) || Exts::mk_right(b).val != bits(&[false; 4], &r) { bad.push(format!("Exts::mk({}, {})", a, b)); }
            }
        }
        if Exts::empty().val != 0 { bad.push("Exts::empty".into()); }
        // flanking-base constructors over every (start, length) of short sequences
        for s in all_strings(4).chain(all_strings(1)).chain(all_strings(0)) {
            let d = DnaString::from_bytes(&s);
            for st in 0..=s.len() {
                for ln in 0..=s.len() - st {
                    let mut l = [false; 4];
                    let mut r = [false; 4];
                    if st > 0 { l[s[st - 1] as usize] = true; }
                    if st + ln < s.len() { r[s[st + ln] as usize] = true; }
                    checks += 2;
                    if Exts::from_slice_bounds(&s, st, ln).val != bits(&l, &r) { bad.push(format!("Exts::from_slice_bounds({}, {}, {})", ascii(&s), st, ln)); }
                    if Exts::from_dna_string(&d, st, ln).val != bits(&l, &r) { bad.push(format!("Exts::from_dna_string({}, {}, {})", ascii(&s), st, ln)); }
                }
            }
        }
        // direction helpers and base complement
        let is_l = |d: Dir| matches!(d, Dir::Left);
        if is_l(Dir::Left.flip()) || !is_l(Dir::Right.flip()) || !is_l(Dir::Left.cond_flip(false)) || is_l(Dir::Left.cond_flip(true)) || is_l(Dir::Right.cond_flip(false)) || !is_l(Dir::Right.cond_flip(true)) || Dir::Left.pick(1, 2) != 1 || Dir::Right.pick(1, 2) != 2 { bad.push("Dir::flip / cond_flip / pick".into()); }
        if (0..4u8).any(|b| debruijn::complement(b) != 3 - b) { bad.push("complement(base)".into()); }
        for m in bad.into_iter().take(3) {
            rep.violation(Violation { signature: "exts-algebra".into(), case: json!({"kind": "exts-algebra"}), detail: m });
        }
    }
    rep.states += 256;
    rep.evaluations += 256;
    rep.count("Exts:values", 256);
    // sequences: all strings up to length L, then structured lengths
    let lmax = if quick { 9 } else { 11 };
    let mut seqs: Vec<S> = vec![];
    for len in 0..=lmax {
        seqs.extend(all_strings(len));
    }
    let n_all = seqs.len();
    let mut g = Lcg(2024);
    let lens: Vec<usize> = (lmax + 1..=70).chain([95, 96, 97, 127, 128, 129, 160, 191, 192]).collect();
    for len in lens {
        seqs.push((0..len).map(|i| (i % 4) as u8).collect());
        seqs.push(g.dna(len));
        for bg in [0u8, 3] {
            seqs.push(vec![bg; len]);
            for hot in [0, len / 2, len - 1, 31.min(len - 1), 32.min(len - 1)] {
                let mut s = vec![bg; len];
                s[hot] = 3 - bg;
                s[hot] = if s[hot] == bg { (bg + 1) % 4 } else { s[hot] };
                seqs.push(s);
            }
        }
    }
    let res: Vec<(u64, Vec<(S, String)>)> = seqs.par_iter().map(|s| { let (n, b) = std::panic::catch_unwind(|| seq_laws(s)).unwrap_or((1, vec!["panicked".to_string()])); (n, b.into_iter().map(|m| (s.clone(), m)).collect()) }).collect();
    rep.states += seqs.len() as u64;
    rep.evaluations += seqs.len() as u64;
    rep.nontrivial += seqs.iter().filter(|s| s.len() >= 2 && **s != rc(s)).count() as u64;
    rep.count("sequences:all_strings_up_to_bound", n_all as u64);
    rep.count("sequences:structured_longer", (seqs.len() - n_all) as u64);
    for (n, b) in res {
        checks += n;
        for (s, m) in b.into_iter().take(1) {
            rep.violation(Violation { signature: "rc-law-container".into(), case: json!({"kind": "sequence", "value": ascii(&s)}), detail: format!("sequence {} (len {}): {}", ascii(&s).chars().take(80).collect::<String>(), s.len(), m) });
        }
    }
    rep.transitions = checks;
    rep.sample(json!({"kind": "kmer", "type": "Kmer6", "value": "ACGCGT", "laws": "position law, involution, min_rc, min_rc_flip, is_palindrome"}));
    rep.sample(json!({"kind": "sequence", "value": "ACGTTGA", "laws": "DnaString rc, slice rc nesting x3 at offsets {0,1,2,31,32,33}, k-mer/ext commutation for 10 K types, Lmer capacities 1..6"}));
    rep.rule = "k-mers: all 20 types, ALL values for K <= 8 (thorough 12), P(K) pattern family otherwise: rc position law, involution (raw equality), min_rc / min_rc_flip (value, flag; palindromes either flag), is_palindrome <=> x == rc(x); all 256 Exts: rc / complement / reverse and the whole set algebra (get, has_ext, num_ext_dir, get_unique_extension, single_dir, set, add and merge over all 65 536 pairs, from_single_dirs, mk*, from_slice_bounds / from_dna_string over every (start, length)) against set semantics; sequences: ALL strings of length 0..9 (thorough 11) plus structured strings at lengths up to 70 and around 96/128/160/192: DnaString::rc, slice.rc nested 1..3 times at backing offsets {0,1,2,31,32,33}, i-th k-mer of rc == rc of (n-K-i)-th k-mer and the k-mer+exts iterator law for 10 K types, Lmer<[u64;1..6]>::rc raw equality. Non-trivial = value differs from its reverse complement's canonical choice (k-mers: palindromic or flipped by min_rc)".into();
    rep.assumptions.push("content exhaustive for K <= 8 and sequence length <= 7 (9); structured beyond".into());
    rep.floor("Kmer6:palindromes", 64);
    rep.floor("sequences:all_strings_up_to_bound", 349525);
}

pub fn replay(c: &Value) -> Vec<String> {
    match c["kind"].as_str() {
        Some("kmer") => {
            let s = from_ascii(c["value"].as_str().unwrap());
            with_kmer_named!(c["type"].as_str().unwrap(), K => kmer_laws::<K>(&s).1)
        }
        Some("sequence") => seq_laws(&from_ascii(c["value"].as_str().unwrap())).1,
        Some("exts-algebra") => {
            let mut rep = Report::new("C12", "quick", "replay");
            check("quick", &mut rep);
            rep.violations.iter().filter(|v| v.signature == "exts-algebra").map(|v| v.detail.clone()).collect()
        }
        Some("exts") => {
            let v = c["value"].as_u64().unwrap() as u8;
            let e = Exts::new(v);
            let (l, r) = decode_exts(v);
            if e.rc().val != encode_exts(&comp_bases(&r), &comp_bases(&l)) { vec![format!("Exts {:#x} rc wrong", v)] } else { vec![] }
        }
        _ => vec!["unknown case kind".into()],
    }
}
