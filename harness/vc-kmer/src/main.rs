//! vc-kmer: C10 (packed k-mers behave as strings), C11 (Eq/Ord/Hash are the string's, any route),
//! C12 (reverse complement coherent across all sequence types).
#[macro_use]
pub mod types;
mod c10;
mod c11;
mod c12;

use vcommon::report::Report;

fn main() {
    vcommon::sweep::silence_panics();
    let args: Vec<String> = std::env::args().collect();
    if args.len() == 3 && args[1] == "--replay" {
        let v: serde_json::Value = serde_json::from_str(&std::fs::read_to_string(&args[2]).expect("read replay")).expect("json");
        let prop = v["property"].as_str().unwrap_or("").to_string();
        let run = |c: &serde_json::Value| -> Vec<String> {
            match prop.as_str() {
                "C10" => c10::replay(c),
                "C11" => c11::replay(c),
                "C12" => c12::replay(c),
                _ => vec!["unknown property".into()],
            }
        };
        let (a, b) = (run(&v["case"]), run(&v["case"]));
        if a != b {
            eprintln!("MACHINERY: replay not deterministic");
            std::process::exit(2);
        }
        if a.is_empty() {
            println!("property held on this case (both runs)");
            return;
        }
        for d in &a {
            println!("violation: {}", d);
        }
        println!("VIOLATION property={} replay={}", prop, args[2]);
        std::process::exit(1);
    }
    if args.len() != 3 {
        eprintln!("usage: vc-kmer <C10|C11|C12> <quick|thorough> | --replay <file>");
        std::process::exit(2);
    }
    let (prop, tier) = (args[1].as_str(), args[2].as_str());
    let mut rep = Report::new(prop, tier, "");
    let r = std::panic::catch_unwind(std::panic::AssertUnwindSafe(|| match prop {
        "C10" => c10::check(tier, &mut rep),
        "C11" => c11::check(tier, &mut rep),
        "C12" => c12::check(tier, &mut rep),
        _ => std::process::exit(2),
    }));
    if let Err(e) = r {
        vcommon::sweep::report_outer_panic(&mut rep, "uncaught", e);
    }
    std::process::exit(rep.finish());
}
