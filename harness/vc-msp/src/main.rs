//! vc-msp: C07 (minimizer partition laws) and C08 (shard assignment pure and strand-symmetric).
use debruijn::dna_string::DnaString;
use debruijn::kmer::*;
use debruijn::msp::*;
use debruijn::vmer::*;
use debruijn::*;
use serde::{Deserialize, Serialize};
use serde_json::json;
use std::collections::{BTreeMap, BTreeSet};
use std::time::Duration;
use vcommon::refmodel::*;
use vcommon::report::Report;
use vcommon::seq::*;
use vcommon::sweep::*;
use vglue::*;

#[derive(Serialize, Deserialize, Clone, Debug)]
struct MCase {
    prop: String,
    p: usize,
    k: usize,
    score: usize,
    cont: usize,
    perm: usize,
    mrc: bool,
    seqs: Vec<String>,
}

const SCORES: [&str; 9] = ["lexicographic", "reverse", "constant_usize_max", "at_count", "rc_min", "parity", "wide_shifted", "wide_hash64", "extremes"];
fn score_of(which: usize, p: usize, s: &[u8]) -> usize {
    let np = 1usize << (2 * p);
    let r = rank(s) as usize;
    match which {
        0 => r,
        1 => np - 1 - r,
        // every p-mer scores the largest representable value (all ties, and no score is "smaller than the start value")
        2 => usize::MAX,
        3 => s.iter().filter(|b| **b == 0 || **b == 3).count(),
        4 => r.min(rank(&rc(s)) as usize),
        5 => r % 2,
        // scores that need all 64 bits: order decided by the high half / by a 64-bit multiplicative hash
        6 => (r << 40) | (np - 1 - r),
        7 => (r as u64 + 1).wrapping_mul(0x9E37_79B9_7F4A_7C15) as usize,
        // only the extreme values: homopolymers usize::MAX, every third rank 0, the rest usize::MAX - 1
        _ => {
            if s.iter().all(|b| *b == s[0]) {
                usize::MAX
            } else if r % 3 == 0 {
                0
            } else {
                usize::MAX - 1
            }
        }
    }
}

/// the interval laws of C07 on one scan result; `iv` = (start, len, minimizer string, minimizer pos)
fn laws(seq: &[u8], k: usize, p: usize, sc: &dyn Fn(&[u8]) -> usize, iv: &[(usize, usize, S, usize)]) -> Result<(), (String, String)> {
    let n = seq.len();
    let bad = |sig: &str, d: String| Err((sig.to_string(), d));
    if iv.is_empty() {
        return bad("no-interval", "scan returned no interval".into());
    }
    let mut next_start = 0usize;
    for (j, (st, l, mz, mp)) in iv.iter().enumerate() {
        let (st, l, mp) = (*st, *l, *mp);
        if st != next_start {
            return bad("intervals-not-contiguous", format!("interval {} starts at {}, previous one implies {} (every k-mer start must lie in exactly one interval)", j, st, next_start));
        }
        if l < k || l > 2 * k - p || st + l > n {
            return bad("interval-length", format!("interval {} = [{}, {}) has length {} outside [k, 2k-p] = [{}, {}] or leaves the sequence", j, st, st + l, l, k, 2 * k - p));
        }
        next_start = st + l - (k - 1);
        if mp + p > n || *mz != seq[mp..mp + p] {
            return bad("minimizer-not-at-position", format!("interval {}: reported minimizer {} is not the p-mer at position {}", j, ascii(mz), mp));
        }
        if mp + k < st + l || mp + p > st + k {
            return bad("minimizer-outside-kmer", format!("interval {} = [{}, {}): minimizer at {} is not inside every k-mer of the interval", j, st, st + l, mp));
        }
        let ms = sc(mz);
        for q in st..=st + l - p {
            if sc(&seq[q..q + p]) < ms {
                return bad("minimizer-not-minimal", format!("interval {} = [{}, {}): p-mer at {} scores {} < minimizer score {}", j, st, st + l, q, sc(&seq[q..q + p]), ms));
            }
        }
        if j + 1 < iv.len() {
            let nk = st + l - k + 1;
            let covers = nk <= mp;
            let newp = sc(&seq[nk + k - p..nk + k]);
            if covers && !(newp < ms) {
                return bad("interval-ends-early", format!("interval {} = [{}, {}) ends although the next k-mer (start {}) still contains its minimizer (pos {}) and brings no strictly better p-mer", j, st, st + l, nk, mp));
            }
        } else if st + l != n {
            return bad("last-interval-short", format!("last interval ends at {}, sequence length {}", st + l, n));
        }
    }
    Ok(())
}

fn scan_with<P: Kmer>(seq: &[u8], k: usize, score: usize, cont: usize) -> Vec<(usize, usize, S, usize)> {
    let p = P::k();
    let f = |x: &P| score_of(score, p, &kstr(x));
    let conv = |v: Vec<MspIntervalP<P>>| v.into_iter().map(|m| (m.start as usize, m.len as usize, kstr(&m.minimizer), m.minimizer_pos as usize)).collect();
    match cont {
        0 => conv(Scanner::new(&DnaSlice(seq), f, k).scan()),
        1 => conv(Scanner::new(&DnaString::from_bytes(seq), f, k).scan()),
        _ => conv(Scanner::new(&DnaBytes(seq.to_vec()), f, k).scan()),
    }
}
macro_rules! with_p {
    ($p:expr, $P:ident => $body:expr) => {
        match $p {
            2 => { type $P = Kmer2; $body }
            3 => { type $P = Kmer3; $body }
            4 => { type $P = Kmer4; $body }
            5 => { type $P = Kmer5; $body }
            6 => { type $P = Kmer6; $body }
            8 => { type $P = Kmer8; $body }
            10 => { type $P = Kmer10; $body }
            16 => { type $P = Kmer16; $body }
            x => panic!("no p-mer type {}", x),
        }
    };
}

fn run_c07(c: &MCase) -> Outcome {
    let mut o = Outcome::default();
    let seq = from_ascii(&c.seqs[0]);
    let (k, p) = (c.k, c.p);
    let sc = |s: &[u8]| score_of(c.score, p, s);
    let iv = with_p!(p, P => scan_with::<P>(&seq, k, c.score, c.cont));
    o.transitions = 1;
    if iv.len() >= 2 {
        o.flags |= 1;
    }
    let scores: BTreeSet<usize> = (0..=seq.len() - p).map(|q| sc(&seq[q..q + p])).collect();
    if scores.len() < seq.len() - p + 1 {
        o.flags |= 2; // tied scores
    }
    if k == p {
        o.flags |= 4;
    }
    if let Err((sig, d)) = laws(&seq, k, p, &sc, &iv) {
        o.fail(&sig, format!("p={} k={} score={} container={}: {} ; intervals {:?}", p, k, SCORES[c.score], c.cont, d, iv.iter().map(|x| (x.0, x.1, ascii(&x.2), x.3)).collect::<Vec<_>>()));
    }
    // the deprecated simple_scan must give the same intervals as a permutation-scored Scanner
    if p <= 4 && c.score <= 1 {
        let np = 1usize << (2 * p);
        let perm: Vec<usize> = (0..np).map(|i| if c.score == 0 { i } else { np - 1 - i }).collect();
        #[allow(deprecated)]
        let ss: Vec<(usize, usize)> = with_p!(p, P => simple_scan::<_, P>(k, &DnaSlice(&seq), &perm, false).into_iter().map(|m| (m.start(), m.len())).collect());
        let want: Vec<(usize, usize)> = iv.iter().map(|x| (x.0, x.1)).collect();
        o.transitions += 1;
        if ss != want {
            o.fail("simple-scan-differs", format!("p={} k={} simple_scan intervals {:?}, Scanner {:?}", p, k, ss, want));
        }
    }
    o
}

fn permutation(p: usize, which: usize) -> Option<Vec<usize>> {
    let n = 1usize << (2 * p);
    match which {
        0 => None,
        1 => Some((0..n).rev().collect()),
        2 => Some((0..n).map(|i| (i + 1) % n).collect()),
        3 => Some((0..n).map(|i| (i * 7 + 3) % n).collect()), // 7 is odd => bijection on a power of two
        w => Some(Lcg(0xABCD + w as u64 + vcommon::report::seed() as u64 * 104729).perm(n)),
    }
}

fn pieces<P: Kmer, V: Vmer>(k: usize, seq: &[u8], perm: Option<&[usize]>, mrc: bool) -> Vec<(u32, u8, S)> {
    msp_sequence::<P, V>(k, seq, perm, mrc).into_iter().map(|(b, e, v)| (b, e.val, (0..v.len()).map(|i| v.get(i)).collect())).collect()
}

fn run_c08(c: &MCase) -> Outcome {
    let mut o = Outcome::default();
    let (k, p) = (c.k, c.p);
    let perm = permutation(p, c.perm);
    let mut reads: Vec<S> = c.seqs.iter().map(|s| from_ascii(s)).collect();
    if c.mrc {
        let rcs: Vec<S> = reads.iter().map(|r| rc(r)).collect();
        reads.extend(rcs);
    }
    let mut bucket_of: BTreeMap<S, BTreeSet<u32>> = BTreeMap::new();
    for r in &reads {
        let need = 2 * k - p;
        let ps: Vec<(u32, u8, S)> = with_p!(p, P => match c.cont {
            1 => pieces::<P, DnaString>(k, r, perm.as_deref(), c.mrc),
            2 if need <= Lmer1::max_len() => pieces::<P, Lmer1>(k, r, perm.as_deref(), c.mrc),
            3 if need <= Lmer2::max_len() => pieces::<P, Lmer2>(k, r, perm.as_deref(), c.mrc),
            4 if need <= Lmer3::max_len() => pieces::<P, Lmer3>(k, r, perm.as_deref(), c.mrc),
            _ => pieces::<P, DnaBytes>(k, r, perm.as_deref(), c.mrc),
        });
        o.transitions += 1;
        if r.len() < k {
            if !ps.is_empty() {
                o.fail("pieces-from-short-read", format!("read {} shorter than k={} gave {} pieces", ascii(r), k, ps.len()));
            }
            continue;
        }
        if ps.len() >= 2 {
            o.flags |= 1;
        }
        let mut start = 0usize;
        for (j, (b, ev, piece)) in ps.iter().enumerate() {
            let l = piece.len();
            if l < k || start + l > r.len() || *piece != r[start..start + l] {
                o.fail("piece-not-substring", format!("read {} piece {} = {} is not the substring at its chained start {}", ascii(r), j, ascii(piece), start));
                break;
            }
            let (el, er) = decode_exts(*ev);
            let mut wl = [false; 4];
            let mut wr = [false; 4];
            if start > 0 {
                wl[r[start - 1] as usize] = true;
            }
            if start + l < r.len() {
                wr[r[start + l] as usize] = true;
            }
            if el != wl || er != wr {
                o.fail("piece-extensions-wrong", format!("read {} piece {} = [{}, {}): extensions L{:?} R{:?}, flanking bases L{:?} R{:?}", ascii(r), j, start, start + l, el, er, wl, wr));
            }
            for w in windows(piece, k) {
                let key = if c.mrc { canon(&w, false).0 } else { w };
                bucket_of.entry(key).or_default().insert(*b);
            }
            if j + 1 == ps.len() && start + l != r.len() {
                o.fail("pieces-do-not-cover-read", format!("read {}: last piece ends at {}", ascii(r), start + l));
            }
            start = start + l - (k - 1);
        }
        // every k-mer of the read is in some piece (exactly once follows from the chain)
        let covered: usize = ps.iter().map(|x| x.2.len() - k + 1).sum();
        if covered != r.len() - k + 1 && o.ok() {
            o.fail("pieces-do-not-cover-read", format!("read {}: pieces hold {} k-mers, read has {}", ascii(r), covered, r.len() - k + 1));
        }
    }
    // the deprecated simple_scan: same intervals as msp_sequence, and ITS bucket ids must also be a pure, strand-symmetric
    // function of the k-mer (they need not be the same numbers as msp_sequence's)
    if p <= 8 {
        let np = 1usize << (2 * p);
        let full_perm: Vec<usize> = perm.clone().unwrap_or_else(|| (0..np).collect());
        let mut ss_bucket_of: BTreeMap<S, BTreeSet<u32>> = BTreeMap::new();
        for r in reads.iter().filter(|r| r.len() >= k) {
            #[allow(deprecated)]
            let ss: Vec<(usize, usize, u32)> = with_p!(p, P => simple_scan::<_, P>(k, &DnaSlice(r), &full_perm, c.mrc).into_iter().map(|m| {
                if m.end() != m.start() + m.len() || m.range() != (m.start()..m.start() + m.len()) || m.is_empty() != (m.len() == 0) {
                    o.fail("msp-interval-accessors", format!("MspInterval start {} len {}: end() = {}, range() = {:?}, is_empty() = {}", m.start(), m.len(), m.end(), m.range(), m.is_empty()));
                }
                (m.start(), m.len(), m.bucket() as u32)
            }).collect());
            let ms: Vec<(u32, u8, S)> = with_p!(p, P => pieces::<P, DnaBytes>(k, r, perm.as_deref(), c.mrc));
            o.transitions += 1;
            let mut start = 0usize;
            let chain: Vec<(usize, usize)> = ms.iter().map(|(_, _, piece)| { let x = (start, piece.len()); start = start + piece.len() - (k - 1); x }).collect();
            if ss.iter().map(|x| (x.0, x.1)).collect::<Vec<_>>() != chain {
                o.fail("simple-scan-intervals-differ", format!("read {} (p={} k={} perm={} rc={}): simple_scan gives (start, len, bucket) {:?}, msp_sequence intervals {:?}", ascii(r), p, k, c.perm, c.mrc, ss, chain));
                break;
            }
            for (st, l, b) in &ss {
                if st + l <= r.len() && *l >= k {
                    for w in windows(&r[*st..st + l], k) {
                        let key = if c.mrc { canon(&w, false).0 } else { w };
                        ss_bucket_of.entry(key).or_default().insert(*b);
                    }
                }
            }
        }
        if let Some((key, bs)) = ss_bucket_of.iter().find(|(_, bs)| bs.len() != 1) {
            o.fail("simple-scan-bucket-not-pure", format!("simple_scan (p={} k={} perm={} rc={}): k-mer {} is reported under buckets {:?}", p, k, c.perm, c.mrc, ascii(key), bs));
        }
    }
    for (key, bs) in &bucket_of {
        if bs.len() != 1 {
            o.fail("kmer-in-several-buckets", format!("k-mer {} (p={} k={} perm={} rc={}) is emitted under buckets {:?}", ascii(key), p, k, c.perm, c.mrc, bs));
            break;
        }
    }
    if bucket_of.values().flatten().collect::<BTreeSet<_>>().len() >= 2 {
        o.flags |= 2;
    }
    if c.mrc && bucket_of.keys().any(|x| is_pal(x)) {
        o.flags |= 4;
    }
    o
}

fn run_case(c: &MCase) -> Outcome {
    match c.prop.as_str() {
        "C07" => run_c07(c),
        "C08" => run_c08(c),
        _ => panic!("unknown property"),
    }
}

/// one exhaustive block: every sequence (or ordered pair) of the given lengths under one configuration
struct Block {
    name: String,
    tmpl: MCase,
    lens: Vec<usize>,
}
impl Block {
    fn count(&self) -> u64 {
        count_strings(self.lens.iter().sum())
    }
    fn case(&self, i: u64) -> MCase {
        let tot: usize = self.lens.iter().sum();
        let s = nth_string(tot, i);
        let mut c = self.tmpl.clone();
        let mut at = 0;
        c.seqs = self.lens.iter().map(|l| { let x = ascii(&s[at..at + l]); at += l; x }).collect();
        c
    }
}

fn run_blocks(blocks: &[Block], group: &str, flag_names: &[&str], rep: &mut Report) {
    // group blocks into one sweep by concatenating their index spaces
    let total: u64 = blocks.iter().map(|b| b.count()).sum();
    let locate = |mut i: u64| -> MCase {
        for b in blocks {
            if i < b.count() {
                return b.case(i);
            }
            i -= b.count();
        }
        unreachable!()
    };
    let cfg = SweepCfg { name: group, flag_names, cap: Duration::from_secs(7200), nontrivial_mask: !0 };
    run_sweep(&cfg, total, |i| run_case(&locate(i)), |i| serde_json::to_value(locate(i)).unwrap(), rep);
}

fn plan_c07(quick: bool, rep: &mut Report) {
    let names = ["two_or_more_intervals", "tied_scores", "k_equals_p"];
    for p in [2usize, 3, 4] {
        let lmax = if quick { 10 } else { 12 };
        let mut blocks = vec![];
        for k in p..=p + 5 {
            for len in k..=lmax {
                for score in 0..9 {
                    // containers: all three for the base score, DnaSlice otherwise
                    for cont in 0..(if score == 0 { 3 } else { 1 }) {
                        blocks.push(Block { name: String::new(), tmpl: MCase { prop: "C07".into(), p, k, score, cont, perm: 0, mrc: false, seqs: vec![] }, lens: vec![len] });
                    }
                }
            }
        }
        run_blocks(&blocks, &format!("all-sequences/P{}", p), &names, rep);
    }
    // larger p-mer types and long sequences: structured content (not exhaustive in content)
    let mut g = Lcg(31337);
    let mut n = 0u64;
    let mut fails = vec![];
    for p in [5usize, 8, 16] {
        for k in [p, p + 1, p + 7, 2 * p, 31, 48, 64] {
            if k < p {
                continue;
            }
            let mut seqs: Vec<S> = vec![];
            for len in [k, k + 1, 2 * k, 150, 300] {
                if len < k {
                    continue;
                }
                seqs.push(g.dna(len));
                for period in [1usize, 2, 3, 5] {
                    let u = g.dna(period);
                    seqs.push((0..len).map(|i| u[i % period]).collect());
                }
                seqs.push((0..len).map(|_| if g.base() < 2 { 0 } else { 3 }).collect());
            }
            for s in &seqs {
                for score in if p <= 8 { vec![0usize, 1, 2, 3, 4, 5, 6, 7, 8] } else { vec![0, 2, 3, 5, 7, 8] } {
                    let c = MCase { prop: "C07".into(), p, k, score, cont: (n % 3) as usize, perm: 0, mrc: false, seqs: vec![ascii(s)] };
                    let o = guarded(|| run_c07(&c));
                    n += 1;
                    if let Some((sig, det)) = o.err {
                        fails.push((sig, det, serde_json::to_value(&c).unwrap()));
                    }
                }
            }
        }
    }
    rep.count("structured/large-P:cases", n);
    rep.evaluations += n;
    rep.states += n;
    rep.transitions += n;
    rep.parts.push(json!({"part": "structured/large-P", "cases": n, "exhaustive_in_content": false}));
    for (sig, det, case) in fails.into_iter().take(10) {
        rep.violation(vcommon::report::Violation { signature: sig, case, detail: det });
    }
    rep.rule = "Scanner::scan (and the deprecated simple_scan for the two permutation scores): P in {Kmer2, Kmer3, Kmer4} x k = p..p+5 (including k = p) x EVERY sequence of length k..Lmax x 9 score functions {lexicographic, reverse, constant usize::MAX, AT-count, rc-min, parity, two 64-bit-wide scores, extremes-only (0 / usize::MAX-1 / usize::MAX)} x containers {DnaSlice, DnaString, DnaBytes}; interval laws decided by brute force; plus structured long sequences (LCG, tandem repeats, 2-letter) for P in {5, 8, 16}, k up to 64 (content not exhaustive). Non-trivial = >= 2 intervals, tied scores or k = p".into();
    rep.floor("all-sequences/P2:two_or_more_intervals", 1);
    rep.floor("all-sequences/P3:k_equals_p", 1);
    rep.floor("all-sequences/P4:tied_scores", 1);
}

fn plan_c08(quick: bool, rep: &mut Report) {
    let names = ["two_or_more_pieces", "two_or_more_buckets", "palindromic_kmer"];
    for p in [2usize, 3, 4] {
        let mut blocks = vec![];
        let lmax = if quick { 9 } else { 11 };
        for k in p + 1..=p + (if quick { 3 } else { 4 }) {
            for len in k..=lmax.max(k + 2) {
                // star over (perm, container, mrc)
                let mut cfgs = vec![(0usize, 0usize, true), (0, 0, false)];
                for perm in 1..6 {
                    cfgs.push((perm, 0, true));
                }
                for cont in 1..5 {
                    cfgs.push((0, cont, true));
                }
                cfgs.push((5, 1, false));
                for (perm, cont, mrc) in cfgs {
                    if len > 10 && !(perm <= 1 && cont == 0) {
                        continue;
                    }
                    blocks.push(Block { name: String::new(), tmpl: MCase { prop: "C08".into(), p, k, score: 0, cont, perm, mrc, seqs: vec![] }, lens: vec![len] });
                }
            }
            // pairs of short reads: the same k-mer in different reads / positions
            if k <= 5 {
                for (a, b) in [(k + 1, k), (k + 1, k + 1)] {
                    if !quick || a + b <= 9 {
                        for (perm, mrc) in [(0usize, true), (4, true), (0, false)] {
                            blocks.push(Block { name: String::new(), tmpl: MCase { prop: "C08".into(), p, k, score: 0, cont: 0, perm, mrc, seqs: vec![] }, lens: vec![a, b] });
                        }
                    }
                }
            }
        }
        run_blocks(&blocks, &format!("all-reads/P{}", p), &names, rep);
    }
    // larger types: structured reads
    let mut g = Lcg(4711);
    let mut n = 0u64;
    let mut fails = vec![];
    for (p, ks) in [(5usize, vec![6usize, 11, 16, 31, 32]), (6, vec![8, 24]), (8, vec![9, 16, 32, 48, 64]), (10, vec![11, 16, 24])] {
        for k in ks {
            for len in [k, k + 1, 2 * k + 3, 200] {
                let mut reads = vec![g.dna(len)];
                let u = g.dna(3);
                reads.push((0..len).map(|i| u[i % 3]).collect());
                let w = g.dna(len / 2 + 1);
                let mut pal = w.clone();
                pal.extend(rc(&w));
                reads.push(pal);
                // low-complexity reads (long runs, two letters) and every k-mer of the first reads as a read of its own,
                // so that the same k-mer is seen alone and inside different contexts
                let lc: S = (0..len).map(|i| if i % 11 == 0 { g.base() } else { 0 }).collect();
                reads.push(lc);
                reads.push((0..len).map(|_| if g.base() < 2 { 0 } else { 3 }).collect());
                let singles: Vec<S> = reads.iter().flat_map(|r| windows(r, k)).take(if p >= 10 { 40 } else { 400 }).collect();
                for w in singles {
                    let mut f = vec![3u8];
                    f.extend_from_slice(&w);
                    reads.push(w);
                    reads.push(f);
                }
                for perm in if p >= 10 { vec![0usize, 1] } else { vec![0usize, 1, 4] } {
                    for mrc in [true, false] {
                        for cont in 0..5 {
                            let c = MCase { prop: "C08".into(), p, k, score: 0, cont, perm, mrc, seqs: reads.iter().map(|r| ascii(r)).collect() };
                            let o = guarded(|| run_c08(&c));
                            n += 1;
                            if let Some((sig, det)) = o.err {
                                fails.push((sig, det, serde_json::to_value(&c).unwrap()));
                            }
                        }
                    }
                }
            }
        }
    }
    rep.count("structured/large-P:cases", n);
    rep.evaluations += n;
    rep.states += n;
    rep.transitions += n;
    rep.parts.push(json!({"part": "structured/large-P", "cases": n, "exhaustive_in_content": false}));
    for (sig, det, case) in fails.into_iter().take(10) {
        rep.violation(vcommon::report::Violation { signature: sig, case, detail: det });
    }
    rep.rule = "msp_sequence: P in {Kmer2, Kmer3, Kmer4} x k = p+1..p+3(4) x EVERY read of length k..Lmax (plus each read's reverse complement as a second read when rc mode is on) and every ordered pair of short reads x permutations {default, reversed, rotation, affine, 2 LCG} x containers {DnaBytes, DnaString, Lmer1, Lmer2, Lmer3} x rc mode on/off (star design around the default); oracle: one bucket per (canonical) k-mer over the whole read set, pieces are the chained exact substrings overlapping by k-1, extensions are the flanking bases, the deprecated simple_scan reports the same intervals and its own bucket ids are a pure strand-symmetric function of the k-mer; plus structured reads for P in {5, 6, 8, 10}, k up to 64, including low-complexity reads and every k-mer also as a read of its own".into();
    rep.floor("all-reads/P2:two_or_more_buckets", 1);
    rep.floor("all-reads/P3:palindromic_kmer", 1);
}

fn main() {
    silence_panics();
    let args: Vec<String> = std::env::args().collect();
    if args.len() == 3 && args[1] == "--replay" {
        let v: serde_json::Value = serde_json::from_str(&std::fs::read_to_string(&args[2]).expect("read replay")).expect("json");
        let c: MCase = serde_json::from_value(v["case"].clone()).expect("case");
        let (a, b) = (guarded(|| run_case(&c)), guarded(|| run_case(&c)));
        if a.err != b.err {
            eprintln!("MACHINERY: replay not deterministic");
            std::process::exit(2);
        }
        println!("replay {:?}", c);
        match a.err {
            None => println!("property held on this case (both runs)"),
            Some((sig, det)) => {
                println!("violation [{}]: {}", sig, det);
                println!("VIOLATION property={} replay={}", c.prop, args[2]);
                std::process::exit(1);
            }
        }
        return;
    }
    if args.len() != 3 {
        eprintln!("usage: vc-msp <C07|C08> <quick|thorough> | --replay <file>");
        std::process::exit(2);
    }
    let (prop, tier) = (args[1].as_str(), args[2].as_str());
    let mut rep = Report::new(prop, tier, "E1 bounded-exhaustive exploration of the minimizer scanner / msp_sequence over all sequences up to a length bound vs brute-force laws");
    match prop {
        "C07" => plan_c07(tier == "quick", &mut rep),
        "C08" => plan_c08(tier == "quick", &mut rep),
        _ => std::process::exit(2),
    }
    rep.assumptions.push("content is exhaustive only up to the stated length bound and for p <= 4; larger p-mer types see structured sequences".into());
    std::process::exit(rep.finish());
}
