//! C13 - k-mer extraction agrees across all containers (E1).
use debruijn::dna_string::DnaString;
use debruijn::vmer::Lmer;
use debruijn::*;
use rayon::prelude::*;
use serde_json::{json, Value};
use vcommon::refmodel::*;
use vcommon::report::{Report, Violation};
use vcommon::seq::*;
use vglue::kstr;

const BEXTS: [u8; 6] = [0x00, 0xff, 0x01, 0x08, 0x10, 0x80];

/// all extraction routes of one container value `v` holding the bases `s`
fn vmer_routes<K: Kmer, V: Vmer>(v: &V, s: &[u8], what: &str, n: &mut u64, bad: &mut Vec<String>) {
    macro_rules! chk { ($c:expr, $($a:tt)*) => { *n += 1; if !($c) { if bad.len() < 3 { bad.push(format!($($a)*)); } } } }
    let k = K::k();
    let len = s.len();
    chk!(v.len() == len, "{}: len {} want {}", what, v.len(), len);
    chk!(v.is_empty() == (len == 0), "{}: is_empty", what);
    let at = s.iter().filter(|b| **b == 0 || **b == 3).count() as u32;
    chk!(v.at_count() == at && v.gc_count() == len as u32 - at, "{} len {}: at_count/gc_count = {}/{}, want {}/{}", what, len, v.at_count(), v.gc_count(), at, len as u32 - at);
    let want = windows(s, k);
    let it: Vec<S> = v.iter_kmers::<K>().map(|x| kstr(&x)).collect();
    chk!(it == want, "{} K={} len {}: iter_kmers yields {} items (want {}), or wrong content/order", what, k, len, it.len(), want.len());
    // every std adaptor an iterator may specialise (nth, skip, step_by, last, count) agrees with plain iteration
    if len <= 12 || len % 16 <= 1 {
        *n += 2;
        if let Some(m) = vglue::iterator_laws_by(&format!("{} K={} len {} iter_kmers", what, k, len), &|| v.iter_kmers::<K>(), &|x: K| kstr(&x), &want) {
            if bad.len() < 3 { bad.push(m); }
        }
        let exp_e: Vec<(S, u8)> = v.iter_kmer_exts::<K>(Exts::new(0x21)).map(|(x, e)| (kstr(&x), e.val)).collect();
        if let Some(m) = vglue::iterator_laws_by(&format!("{} K={} len {} iter_kmer_exts", what, k, len), &|| v.iter_kmer_exts::<K>(Exts::new(0x21)), &|(x, e): (K, Exts)| (kstr(&x), e.val), &exp_e) {
            if bad.len() < 3 { bad.push(m); }
        }
        let bases: Vec<u8> = s.to_vec();
        if let Some(m) = vglue::iterator_laws(&format!("{} len {} Mer::iter", what, len), &|| v.iter(), &bases) {
            if bad.len() < 3 { bad.push(m); }
        }
    }
    if len >= k {
        for p in 0..=len - k {
            chk!(kstr(&v.get_kmer::<K>(p)) == want[p], "{} K={} len {}: get_kmer({})", what, k, len, p);
        }
        chk!(kstr(&v.first_kmer::<K>()) == want[0] && kstr(&v.last_kmer::<K>()) == want[len - k], "{} K={} len {}: first/last_kmer", what, k, len);
        let (a, b): (K, K) = v.both_term_kmer();
        chk!(kstr(&a) == want[0] && kstr(&b) == want[len - k], "{} K={}: both_term_kmer", what, k);
        chk!(kstr(&v.term_kmer::<K>(Dir::Left)) == want[0] && kstr(&v.term_kmer::<K>(Dir::Right)) == want[len - k], "{} K={}: term_kmer", what, k);
    }
    for be in BEXTS {
        let got: Vec<(S, u8)> = v.iter_kmer_exts::<K>(Exts::new(be)).map(|(x, e)| (kstr(&x), e.val)).collect();
        let (bl, br) = decode_exts(be);
        let exp: Vec<(S, u8)> = (0..want.len())
            .map(|i| {
                let mut l = [false; 4];
                let mut r = [false; 4];
                if i > 0 { l[s[i - 1] as usize] = true; } else { l = bl; }
                if i + k < len { r[s[i + k] as usize] = true; } else { r = br; }
                (want[i].clone(), encode_exts(&l, &r))
            })
            .collect();
        chk!(got == exp, "{} K={} len {} boundary exts {:#04x}: iter_kmer_exts gives {:?}", what, k, len, be, got.iter().map(|x| (ascii(&x.0), x.1)).collect::<Vec<_>>());
    }
}

fn all_routes<K: Kmer>(s: &[u8], offsets: &[usize]) -> (u64, Vec<String>) {
    let mut n = 0u64;
    let mut bad = vec![];
    let len = s.len();
    vmer_routes::<K, _>(&DnaString::from_bytes(s), s, "DnaString", &mut n, &mut bad);
    vmer_routes::<K, _>(&DnaBytes(s.to_vec()), s, "DnaBytes", &mut n, &mut bad);
    vmer_routes::<K, _>(&DnaSlice(s), s, "DnaSlice", &mut n, &mut bad);
    // bulk constructors
    let asc: Vec<u8> = s.iter().enumerate().map(|(i, b)| if i % 2 == 0 { b"ACGT"[*b as usize] } else { b"acgt"[*b as usize] }).collect();
    let want = windows(s, K::k());
    n += 2;
    if K::kmers_from_bytes(s).iter().map(|x| kstr(x)).collect::<Vec<_>>() != want || K::kmers_from_ascii(&asc).iter().map(|x| kstr(x)).collect::<Vec<_>>() != want {
        bad.push(format!("kmers_from_bytes/ascii K={} len {}", K::k(), len));
    }
    // slices: forward and reverse-complemented views at every listed offset of a longer backing string
    for &off in offsets {
        let mut backing: S = (0..off).map(|i| ((i * 3 + 2) % 4) as u8).collect();
        backing.extend_from_slice(s);
        backing.extend_from_slice(&[1, 3, 0, 2]);
        let bd = DnaString::from_bytes(&backing);
        vmer_routes::<K, _>(&bd.slice(off, off + len), s, &format!("DnaStringSlice(offset {})", off), &mut n, &mut bad);
        // rc view over the reverse-complemented backing: reads as s again
        let rb = DnaString::from_bytes(&rc(&backing));
        let start = backing.len() - off - len;
        vmer_routes::<K, _>(&rb.slice(start, start + len).rc(), s, &format!("DnaStringSlice.rc(offset {})", start), &mut n, &mut bad);
    }
    macro_rules! lm { ($($c:expr),*) => { $( {
        type L = Lmer<[u64; $c]>;
        if len <= L::max_len() {
            vmer_routes::<K, _>(&L::from_slice(s), s, concat!("Lmer<[u64;", stringify!($c), "]>"), &mut n, &mut bad);
        }
    } )* } }
    lm!(1, 2, 3, 4, 5, 6);
    (n, bad)
}

fn sequences(quick: bool) -> (Vec<S>, usize) {
    let mut seqs: Vec<S> = vec![];
    let lall = if quick { 7 } else { 9 };
    for len in 0..=lall {
        seqs.extend(all_strings(len));
    }
    let n_all = seqs.len();
    let mut g = Lcg(13);
    for len in lall + 1..=134 {
        if quick && len > 72 && !(92..=98).contains(&len) && !(124..=134).contains(&len) {
            continue;
        }
        seqs.push((0..len).map(|i| ((i + i / 4) % 4) as u8).collect());
        seqs.push(g.dna(len));
        for bg in [0u8, 3] {
            let hots: Vec<usize> = if quick { vec![0, len / 2, len - 1, 31.min(len - 1), 32.min(len - 1), 63.min(len - 1), 64.min(len - 1)] } else { (0..len).collect() };
            for hot in hots {
                let mut s = vec![bg; len];
                s[hot] = 3 - bg;
                seqs.push(s);
            }
        }
    }
    (seqs, n_all)
}

pub fn check(tier: &str, rep: &mut Report) {
    rep.engine = "E1 bounded-exhaustive exploration of every k-mer extraction route over containers x k-mer types x lengths x positions vs windows of the base vector".into();
    let quick = tier == "quick";
    let (seqs, n_all) = sequences(quick);
    let offsets: Vec<usize> = if quick { vec![0, 1, 2, 15, 16, 30, 31, 32, 33, 34] } else { (0..=34).collect() };
    let mut total = 0u64;
    for_all_kmer_types!(K, name => {
        let res: Vec<(u64, Vec<(S, String)>)> = seqs.par_iter().map(|s| {
            let r = std::panic::catch_unwind(|| all_routes::<K>(s, &offsets));
            let (n, b) = r.unwrap_or((1, vec!["extraction panicked".into()]));
            (n, b.into_iter().map(|m| (s.clone(), m)).collect())
        }).collect();
        let mut tn = 0;
        for (n, b) in res {
            tn += n;
            for (s, m) in b.into_iter().take(1) {
                rep.violation(Violation { signature: "kmer-extraction-differs".into(), case: json!({"type": name, "seq": ascii(&s)}), detail: format!("{} on sequence {} (len {}): {}", name, ascii(&s).chars().take(70).collect::<String>(), s.len(), m) });
            }
        }
        total += tn;
        rep.count(&format!("{}:checks", name), tn);
    });
    rep.states = seqs.len() as u64 * 20;
    rep.evaluations = rep.states;
    rep.transitions = total;
    rep.nontrivial = seqs.iter().filter(|s| s.len() >= 32).count() as u64 * 20;
    rep.count("sequences:all_strings_up_to_bound", n_all as u64);
    rep.count("sequences:structured_longer", (seqs.len() - n_all) as u64);
    rep.exhaustive = false;
    rep.sample(json!({"type": "Kmer16", "seq": "counter pattern of length 97", "routes": "DnaString, DnaBytes, DnaSlice, slice fwd/rc at offsets {0,1,31,32,33}, Lmer2..6; get_kmer at every position, iter_kmers, first/last/term/both_term, kmers_from_bytes/ascii, iter_kmer_exts x 6 boundary sets"}));
    rep.sample(json!({"type": "Kmer3", "seq": "ACG"}));
    rep.rule = "containers {DnaString, DnaBytes, DnaSlice, DnaStringSlice forward and reverse-complemented at backing offsets {0,1,2,15,16,30..34} (thorough: 0..34), Lmer<[u64;1..6]>} x all 20 k-mer types x sequences {ALL strings of length 0..7 (thorough 9); lengths up to 134: counter, LCG and 1-hot patterns on A and T backgrounds (thorough: hot base at every position)} x every position: get_kmer, first/last/term/both_term_kmer, iter_kmers (count max(0,n-K+1), order; nth/skip/step_by/last/count agree with plain iteration, also for iter_kmer_exts and the base iterator), kmers_from_bytes/ascii, iter_kmer_exts with boundary sets {none, all, 4 single}; a state = (type, sequence), non-trivial = sequence spans >= 2 storage blocks".into();
    rep.assumptions.push("content exhaustive only for length <= 7 (9); longer sequences use structured patterns that cross every block boundary with every K".into());
    rep.floor("sequences:all_strings_up_to_bound", 21845);
}

pub fn replay(c: &Value) -> Vec<String> {
    let s = from_ascii(c["seq"].as_str().unwrap_or(""));
    let offsets: Vec<usize> = (0..=34).collect();
    with_kmer_named!(c["type"].as_str().unwrap_or(""), K => all_routes::<K>(&s, &offsets).1)
}
