//! C14 - the growable DNA string is a faithful sequence container (E2: stateright BFS over
//! construction/mutation histories; state = (real DnaString, Vec<u8> model)).
use debruijn::dna_string::*;
use debruijn::{Mer, Vmer};
use serde_json::{json, Value};
use stateright::{Model, Property};
use std::collections::hash_map::DefaultHasher;
use std::hash::{Hash, Hasher};
use std::sync::Arc;
use vcommon::report::{Report, Violation};
use vcommon::seq::*;

fn h<T: Hash>(t: &T) -> u64 {
    let mut x = DefaultHasher::new();
    t.hash(&mut x);
    x.finish()
}

#[derive(Clone, Debug, Hash, PartialEq, Eq)]
pub struct St {
    pub imp: DnaString,
    pub model: Vec<u8>,
    pub depth: u8,
}

#[derive(Clone, Debug, PartialEq, Eq, Hash)]
pub enum Op {
    Push(u8),
    Extend(usize, u8),
    PushBytes(usize),
    Set(usize, u8),
    Clear,
    Blank(usize),
    VmerNew(usize),
    Rc,
    Reverse,
    FromBytes,
    FromAscii,
    FromStr,
    WithCapacityThenExtend(usize),
    ToOwnedSlice,
}

pub struct M {
    pub bound: u8,
    pub probes: Arc<Vec<(DnaString, Vec<u8>)>>,
    pub serde_every: bool,
}

pub fn violation_of(s: &St, probes: &[(DnaString, Vec<u8>)], serde_check: bool) -> Option<String> {
    let m = &s.model;
    let d = &s.imp;
    let canon = DnaString::from_bytes(m);
    let asc: Vec<u8> = m.iter().map(|b| b"ACGT"[*b as usize]).collect();
    macro_rules! need { ($c:expr, $($a:tt)*) => { if !($c) { return Some(format!($($a)*)); } } }
    need!(d.len() == m.len() && Mer::len(d) == m.len(), "len {} want {}", d.len(), m.len());
    need!(d.is_empty() == m.is_empty(), "is_empty");
    need!((0..m.len()).all(|i| d.get(i) == m[i]), "get(i) differs");
    need!(d.iter().collect::<Vec<u8>>() == *m && d.to_bytes() == *m, "iter/to_bytes");
    need!((&*d).into_iter().collect::<Vec<u8>>() == *m, "IntoIterator");
    need!(d.to_ascii_vec() == asc, "to_ascii_vec");
    if m.len() <= 70 {
        if let Some(e) = vglue::iterator_laws("DnaString::iter", &|| d.iter(), m) {
            return Some(e);
        }
        if let Some(e) = vglue::iterator_laws("(&DnaString).into_iter", &|| (&*d).into_iter(), m) {
            return Some(e);
        }
        if let Some(e) = vglue::iterator_laws("Mer::iter(DnaString)", &|| Mer::iter(d), m) {
            return Some(e);
        }
    }
    need!(d.to_string().as_bytes() == &asc[..] && format!("{:?}", d).as_bytes() == &asc[..], "Display/Debug");
    need!(*d == canon, "raw value differs from from_bytes(model) (padding bits or block count depend on the history)");
    need!(h(d) == h(&canon), "Hash differs from the canonical construction");
    need!(d.cmp(&canon) == std::cmp::Ordering::Equal, "cmp with canonical construction");
    let r: Vec<u8> = m.iter().rev().cloned().collect();
    need!(d.reverse() == DnaString::from_bytes(&r) && d.reverse().to_bytes() == r, "reverse");
    let rcm = rc(m);
    need!(d.rc() == DnaString::from_bytes(&rcm) && d.rc().to_bytes() == rcm, "rc");
    need!(ndiffs(d, &canon) == 0 && d.hamming_distance(&canon) == 0, "ndiffs with itself");
    // ndiffs against strings that differ everywhere / at every third base / in the low or high bit only
    for (name, f) in [("all", (|_i: usize, b: u8| (b + 1) % 4) as fn(usize, u8) -> u8), ("every-third", |i, b| if i % 3 == 0 { (b + 2) % 4 } else { b }), ("low-bit", |_i, b| b ^ 1), ("high-bit", |i, b| if i % 2 == 1 { b ^ 2 } else { b })] {
        let m2: Vec<u8> = m.iter().enumerate().map(|(i, b)| f(i, *b)).collect();
        let want = m.iter().zip(m2.iter()).filter(|(a, b)| a != b).count();
        need!(ndiffs(d, &DnaString::from_bytes(&m2)) == want && ndiffs(&DnaString::from_bytes(&m2), d) == want, "ndiffs against the '{}' variant: want {}", name, want);
    }
    if !m.is_empty() {
        for p in [0, m.len() / 2, m.len() - 1] {
            let mut m2 = m.clone();
            m2[p] = (m2[p] + 1) % 4;
            let o = DnaString::from_bytes(&m2);
            need!(ndiffs(d, &o) == 1, "ndiffs with a one-base change at {}", p);
            need!(d.cmp(&o) == m.cmp(&m2) && (*d == o) == false, "cmp/eq against one-base change at {}", p);
        }
        need!(d.cmp(&DnaString::from_bytes(&m[..m.len() - 1])) == std::cmp::Ordering::Greater, "proper prefix must sort first");
    }
    let mut m3 = m.clone();
    m3.push(0);
    need!(d.cmp(&DnaString::from_bytes(&m3)) == std::cmp::Ordering::Less, "string must sort before its extension by A");
    for (pk, ps) in probes {
        need!(d.cmp(pk) == m.cmp(ps) && d.partial_cmp(pk) == Some(m.cmp(ps)), "cmp against probe {} (len {})", ascii(ps).chars().take(40).collect::<String>(), ps.len());
        need!((*d == *pk) == (*m == *ps), "eq against probe");
    }
    // views
    need!(d.prefix(m.len() / 2).bytes() == m[..m.len() / 2] && d.suffix(m.len() / 3).bytes() == m[m.len() - m.len() / 3..], "prefix/suffix");
    if serde_check {
        let js = serde_json::to_string(d).unwrap();
        let back: DnaString = serde_json::from_str(&js).unwrap();
        need!(back == *d && back.to_bytes() == *m, "serde round trip");
    }
    None
}

impl Model for M {
    type State = St;
    type Action = Op;
    fn init_states(&self) -> Vec<St> {
        let mut v = vec![St { imp: DnaString::new(), model: vec![], depth: 0 }, St { imp: DnaString::default(), model: vec![], depth: 0 }];
        for n in [1usize, 31, 32, 33, 63, 64, 65] {
            let m: Vec<u8> = (0..n).map(|i| ((i * 3 + 1) % 4) as u8).collect();
            v.push(St { imp: DnaString::from_bytes(&m), model: m.clone(), depth: 0 });
            let asc: Vec<u8> = m.iter().map(|b| b"acgt"[*b as usize]).collect();
            v.push(St { imp: DnaString::from_acgt_bytes(&asc), model: m.clone(), depth: 0 });
            if n % 2 == 1 {
                let mut d = DnaString::blank(n);
                for (i, b) in m.iter().enumerate() {
                    d.set_mut(i, *b);
                }
                v.push(St { imp: d, model: m, depth: 0 });
            }
        }
        v
    }
    fn actions(&self, s: &St, a: &mut Vec<Op>) {
        if s.depth >= self.bound {
            return;
        }
        for b in 0..4u8 {
            a.push(Op::Push(b));
        }
        for n in [0usize, 1, 2, 30, 31, 32, 33, 64, 65] {
            for b in [3u8, 9] {
                a.push(Op::Extend(n, b));
            }
        }
        for n in [0usize, 1, 3, 4, 5, 8] {
            a.push(Op::PushBytes(n));
        }
        let l = s.model.len();
        let mut ps = vec![0usize, 1, 30, 31, 32, 33, 63, 64, l.saturating_sub(1)];
        ps.sort();
        ps.dedup();
        for p in ps {
            if p < l {
                for b in [0u8, 3, 2] {
                    a.push(Op::Set(p, b));
                }
            }
        }
        a.push(Op::Clear);
        for n in [0usize, 1, 31, 32, 33] {
            a.push(Op::Blank(n));
        }
        a.push(Op::VmerNew(33));
        a.push(Op::Rc);
        a.push(Op::Reverse);
        a.push(Op::FromBytes);
        a.push(Op::FromAscii);
        a.push(Op::FromStr);
        for n in [0usize, 10, 100] {
            a.push(Op::WithCapacityThenExtend(n));
        }
        a.push(Op::ToOwnedSlice);
    }
    fn next_state(&self, s: &St, op: Op) -> Option<St> {
        if s.model.len() > 200 {
            return None;
        }
        let mut t = s.clone();
        t.depth += 1;
        match op {
            Op::Push(b) => {
                t.imp.push(b);
                t.model.push(b);
            }
            Op::Extend(n, b) => {
                let v: Vec<u8> = (0..n).map(|i| if b == 9 { ((i + t.model.len()) % 4) as u8 } else { b }).collect();
                t.imp.extend(v.iter().cloned());
                t.model.extend(v);
            }
            Op::PushBytes(n) => {
                let bytes = [0b11_10_01_00u8, 0b00_01_10_11];
                t.imp.push_bytes(&bytes, n);
                for i in 0..n {
                    t.model.push((bytes[i / 4] >> (2 * (i % 4))) & 3);
                }
            }
            Op::Set(p, b) => {
                t.imp.set_mut(p, b);
                t.model[p] = b;
            }
            Op::Clear => {
                t.imp.clear();
                t.model.clear();
            }
            Op::Blank(n) => {
                t.imp = DnaString::blank(n);
                t.model = vec![0; n];
            }
            Op::VmerNew(n) => {
                t.imp = <DnaString as Vmer>::new(n);
                t.model = vec![0; n];
            }
            Op::Rc => {
                t.imp = t.imp.rc();
                t.model = rc(&t.model);
            }
            Op::Reverse => {
                t.imp = t.imp.reverse();
                t.model.reverse();
            }
            Op::FromBytes => t.imp = DnaString::from_bytes(&t.imp.to_bytes()),
            Op::FromAscii => t.imp = DnaString::from_acgt_bytes(&t.imp.to_ascii_vec()),
            Op::FromStr => t.imp = DnaString::from_dna_string(&t.imp.to_string()),
            Op::WithCapacityThenExtend(n) => {
                let mut d = DnaString::with_capacity(n);
                d.extend(t.imp.iter());
                t.imp = d;
            }
            Op::ToOwnedSlice => t.imp = t.imp.slice(0, t.imp.len()).to_owned(),
        }
        Some(t)
    }
    fn properties(&self) -> Vec<Property<Self>> {
        vec![Property::always("faithful-container", |m: &M, s: &St| violation_of(s, &m.probes, m.serde_every || s.depth <= 1).is_none())]
    }
}

fn probes() -> Vec<(DnaString, Vec<u8>)> {
    let mut v: Vec<Vec<u8>> = vec![vec![], vec![0], vec![3], vec![0; 32], vec![0; 33], vec![3; 31], vec![3; 32], vec![3; 64]];
    let mut g = Lcg(99);
    for n in [5usize, 31, 32, 33, 40, 64, 65, 70] {
        v.push(g.dna(n));
        v.push((0..n).map(|i| ((i * 3 + 1) % 4) as u8).collect());
    }
    v.into_iter().map(|m| (DnaString::from_bytes(&m), m)).collect()
}

fn packed_sets(rep: &mut Report) {
    let lens = [0usize, 1, 31, 32, 33, 40];
    let mut g = Lcg(3);
    let mut n = 0u64;
    // every list of <= 3 sequences with lengths from the set (4 in a few fixed cases)
    let mut lists: Vec<Vec<usize>> = vec![vec![]];
    for a in lens {
        lists.push(vec![a]);
        for b in lens {
            lists.push(vec![a, b]);
            for c in lens {
                lists.push(vec![a, b, c]);
            }
        }
    }
    lists.push(vec![33, 0, 32, 1]);
    lists.push(vec![40, 40, 40, 40]);
    for l in lists {
        let seqs: Vec<S> = l.iter().map(|n| g.dna(*n)).collect();
        let mut ps = PackedDnaStringSet::new();
        for (i, s) in seqs.iter().enumerate() {
            if i % 2 == 0 { ps.add(s.iter()); } else { ps.add(s.clone()); }
        }
        n += 1;
        let mut ok = ps.len() == seqs.len() && ps.is_empty() == seqs.is_empty();
        for (i, s) in seqs.iter().enumerate() {
            ok &= ps.get(i).bytes() == *s && ps.get(i).len() == s.len();
            for (a, b) in [(0, s.len()), (s.len() / 2, s.len()), (0, s.len() / 2), (s.len() / 3, s.len() / 3)] {
                ok &= ps.slice(i, a, b).bytes() == s[a..b];
            }
        }
        if !ok {
            rep.violation(Violation { signature: "packed-set-returns-wrong-sequence".into(), case: json!({"packed_lens": l}), detail: format!("PackedDnaStringSet with lengths {:?} does not return the added sequences", l) });
        }
    }
    rep.count("packed_sets:lists", n);
    rep.states += n;
    rep.evaluations += n;
    rep.transitions += n;
}

pub fn explore(bound: u8, serde_every: bool) -> vcommon::e2::E2Result {
    vcommon::e2::explore_opt(M { bound, probes: Arc::new(probes()), serde_every }, None)
}

pub fn check(tier: &str, rep: &mut Report) {
    rep.engine = "E2 explicit-state search (stateright BFS) over DnaString operation histories; state = (real DnaString, Vec<u8> model, depth)".into();
    let bound = if tier == "quick" { 4 } else { 5 };
    let r = explore(bound, tier != "quick");
    let desc = json!({"engine": "E2", "model": "DnaString", "bound": bound});
    vcommon::e2::record(rep, "DnaString", desc, &r, &|_| "dnastring-not-faithful".to_string());
    rep.nontrivial = r.unique.saturating_sub(20);
    packed_sets(rep);
    rep.sample(json!({"history": ["init from_acgt_bytes(len 33)", "Extend(31, counter)", "Set(32, T)", "Rc"], "invariant": "len/get/iter/bytes/ascii/Display/Debug/reverse/rc/ndiffs/prefix/suffix == Vec<u8> model; raw == from_bytes(model); Hash; cmp vs 24 probes and prefix rules; serde"}));
    rep.sample(json!({"history": ["init empty", "PushBytes(5)", "Clear", "Push(G)"]}));
    rep.rule = format!("stateright BFS, {} operations deep from 23 start states (empty, and lengths 1,31,32,33,63,64,65 built by from_bytes / from_acgt_bytes / blank+set_mut); actions: push x4, extend(m in {{0,1,2,30,31,32,33,64,65}} x {{T-run, counter}}), push_bytes(n in {{0,1,3,4,5,8}}), set_mut at boundary positions x3 bases, clear, blank(n), Vmer::new, rc, reverse, re-construction via from_bytes / from_acgt_bytes / from_dna_string / with_capacity+extend / slice.to_owned; depth is part of the state key; invariant on every state as in the sample; PackedDnaStringSet: every list of <= 3 sequences with lengths from {{0,1,31,32,33,40}}: get(i)/slice(i,a,b); non-trivial = every state beyond the start states", bound);
    rep.assumptions.push("histories are depth-bounded; lengths above 200 are cut".into());
    rep.floor("DnaString:unique_states", 10000);
}

pub fn replay(c: &Value) -> Vec<String> {
    if c.get("packed_lens").is_some() {
        let mut rep = Report::new("C14", "quick", "replay");
        packed_sets(&mut rep);
        return rep.violations.iter().map(|v| v.detail.clone()).collect();
    }
    let bound = c["model"]["bound"].as_u64().unwrap_or(3) as u8;
    explore(bound, true).discoveries.iter().map(|(n, a, s)| format!("{} after {:?}: {}", n, a, s.chars().take(300).collect::<String>())).collect()
}
