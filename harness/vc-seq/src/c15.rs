//! C15 - string slices are exact, composable views (E2 over view compositions + E1 Hamming sweep).
use debruijn::dna_string::*;
use debruijn::kmer::*;
use debruijn::{Kmer, Mer, Vmer};
use rayon::prelude::*;
use serde_json::{json, Value};
use stateright::{Model, Property};
use std::sync::Arc;
use vcommon::report::{Report, Violation};
use vcommon::seq::*;
use vglue::kstr;

#[derive(Clone, Debug, Hash, PartialEq, Eq)]
pub struct VSt {
    pub start: usize,
    pub len: usize,
    pub is_rc: bool,
    pub model: S,
    pub depth: u8,
}
#[derive(Clone, Debug, PartialEq, Eq, Hash)]
pub enum VOp {
    Slice(usize, usize),
    Rc,
}
pub struct VM {
    pub backing: Arc<DnaString>,
    pub base: S,
    pub bound: u8,
}

fn view<'a>(b: &'a DnaString, s: &VSt) -> DnaStringSlice<'a> {
    DnaStringSlice { dna_string: b, start: s.start, length: s.len, is_rc: s.is_rc }
}

pub fn view_violation(v: &DnaStringSlice, m: &[u8]) -> Option<String> {
    macro_rules! need { ($c:expr, $($a:tt)*) => { if !($c) { return Some(format!($($a)*)); } } }
    let asc: Vec<u8> = m.iter().map(|b| b"ACGT"[*b as usize]).collect();
    let text = String::from_utf8(asc.clone()).unwrap();
    need!(v.len() == m.len() && v.is_empty() == m.is_empty(), "len {} want {}", v.len(), m.len());
    need!((0..m.len()).all(|i| v.get(i) == m[i]), "get(i)");
    need!(v.iter().collect::<Vec<u8>>() == m && v.into_iter().collect::<Vec<u8>>() == m, "iter");
    need!(v.bytes() == m, "bytes");
    if m.len() <= 40 {
        if let Some(e) = vglue::iterator_laws("DnaStringSlice::iter", &|| v.iter(), m) {
            return Some(e);
        }
    }
    need!(v.ascii() == asc, "ascii");
    need!(v.to_dna_string() == text, "to_dna_string {}", v.to_dna_string());
    need!(format!("{}", v) == text, "Display {}", format!("{}", v));
    if m.len() < 256 {
        need!(format!("{:?}", v) == text, "Debug renders {:?}, view reads {}", format!("{:?}", v), text);
    } else {
        let _ = format!("{:?}", v);
    }
    let owned = v.to_owned();
    need!(owned == DnaString::from_bytes(m) && owned.to_bytes() == m, "to_owned");
    let canon = DnaString::from_bytes(m);
    need!(*v == canon.slice(0, m.len()) && canon.slice(0, m.len()) == *v, "== with an equal view of another string");
    need!(v.hamming_dist(&canon.slice(0, m.len())) == 0, "hamming_dist with an equal view");
    // a view and its reverse complement (same parent, same interval) are equal only if the substring is its own rc
    let r = v.rc();
    need!((*v == r) == (m == rc(m).as_slice()) && (r == *v) == (m == rc(m).as_slice()), "== between a view and its own reverse complement");
    need!(*v == v.clone() && r == r.clone(), "== with a clone of itself");
    if !m.is_empty() {
        for p in [0, m.len() - 1, m.len() / 2] {
            let mut m2 = m.to_vec();
            m2[p] = (m2[p] + 2) % 4;
            let o = DnaString::from_bytes(&m2);
            need!(*v != o.slice(0, m.len()), "!= with a view differing at {}", p);
            need!(v.hamming_dist(&o.slice(0, m.len())) == 1, "hamming_dist with a view differing at {}", p);
        }
        let shorter = canon.slice(0, m.len() - 1);
        need!(*v != shorter, "!= with a shorter view");
    }
    macro_rules! kx { ($($t:ty),*) => { $( {
        let k = <$t>::k();
        let want = windows(m, k);
        let got: Vec<S> = v.iter_kmers::<$t>().map(|x| kstr(&x)).collect();
        need!(got == want, "iter_kmers K={}", k);
        for (p, w) in want.iter().enumerate() {
            need!(kstr(&v.get_kmer::<$t>(p)) == *w, "get_kmer::<K={}>({})", k, p);
        }
    } )* } }
    kx!(Kmer3, Kmer4, Kmer16, Kmer32);
    None
}

impl Model for VM {
    type State = VSt;
    type Action = VOp;
    fn init_states(&self) -> Vec<VSt> {
        let n = self.base.len();
        let b = &*self.backing;
        let mut v = vec![];
        let mk = |s: DnaStringSlice, m: S| VSt { start: s.start, len: s.length, is_rc: s.is_rc, model: m, depth: 0 };
        let mut pts = vec![0usize, 1, n / 2, n.saturating_sub(1), n, 31, 32, 33];
        pts.retain(|p| *p <= n);
        pts.sort();
        pts.dedup();
        for &k in &pts {
            v.push(mk(b.prefix(k), self.base[..k].to_vec()));
            v.push(mk(b.suffix(k), self.base[n - k..].to_vec()));
        }
        for &a in &pts {
            for &e in &pts {
                if a <= e {
                    v.push(mk(b.slice(a, e), self.base[a..e].to_vec()));
                }
            }
        }
        v
    }
    fn actions(&self, s: &VSt, a: &mut Vec<VOp>) {
        if s.depth >= self.bound {
            return;
        }
        a.push(VOp::Rc);
        let l = s.len;
        let mut pts = vec![0usize, 1, 2, l / 2, l.saturating_sub(2), l.saturating_sub(1), l];
        pts.retain(|p| *p <= l);
        pts.sort();
        pts.dedup();
        for &x in &pts {
            for &y in &pts {
                if x <= y && !(x == 0 && y == l) {
                    a.push(VOp::Slice(x, y));
                }
            }
        }
    }
    fn next_state(&self, s: &VSt, op: VOp) -> Option<VSt> {
        let v = view(&self.backing, s);
        let (nv, m) = match op {
            VOp::Rc => (v.rc(), rc(&s.model)),
            VOp::Slice(a, b) => {
                let x = v.slice(a, b);
                (DnaStringSlice { dna_string: &self.backing, start: x.start, length: x.length, is_rc: x.is_rc }, s.model[a..b].to_vec())
            }
        };
        Some(VSt { start: nv.start, len: nv.length, is_rc: nv.is_rc, model: m, depth: s.depth + 1 })
    }
    fn properties(&self) -> Vec<Property<Self>> {
        vec![Property::always("view-reads-as-substring", |m: &VM, s: &VSt| {
            // a view that leaves the backing string is itself a violation (and must not be dereferenced)
            if s.start + s.len > m.backing.len() {
                return false;
            }
            std::panic::catch_unwind(std::panic::AssertUnwindSafe(|| view_violation(&view(&m.backing, s), &s.model).is_none())).unwrap_or(false)
        })]
    }
}

pub fn explore(base: &[u8], bound: u8) -> vcommon::e2::E2Result {
    vcommon::e2::explore_opt(VM { backing: Arc::new(DnaString::from_bytes(base)), base: base.to_vec(), bound }, None)
}

/// a view that reads exactly `m`, placed at backing offset `off`, stored on the given strand
fn view_of(m: &[u8], off: usize, stored_rc: bool, salt: usize) -> (DnaString, usize, bool) {
    let body: S = if stored_rc { rc(m) } else { m.to_vec() };
    let mut backing: S = (0..off).map(|i| ((i * 3 + salt) % 4) as u8).collect();
    backing.extend_from_slice(&body);
    backing.extend((0..3).map(|i| ((i + salt) % 4) as u8));
    (DnaString::from_bytes(&backing), off, stored_rc)
}

/// E1: Hamming distance of equal-length views for every length / offset pair / strand pair / difference set
pub fn hamming_case(len: usize, off_a: usize, off_b: usize, ra: bool, rb: bool, diff: &[usize]) -> Option<String> {
    let m: S = (0..len).map(|i| ((i * 5 + 1 + i / 7) % 4) as u8).collect();
    let mut m2 = m.clone();
    for &p in diff {
        m2[p] = (m2[p] + 1) % 4;
    }
    let (da, oa, _) = view_of(&m, off_a, ra, 1);
    let (db, ob, _) = view_of(&m2, off_b, rb, 2);
    let sa = if ra { da.slice(oa, oa + len).rc() } else { da.slice(oa, oa + len) };
    let sb = if rb { db.slice(ob, ob + len).rc() } else { db.slice(ob, ob + len) };
    let (g1, g2) = (sa.hamming_dist(&sb), sb.hamming_dist(&sa));
    if g1 as usize != diff.len() || g2 != g1 {
        return Some(format!("len {} offsets ({}, {}) rc ({}, {}) differing view positions {:?}: hamming_dist = {} / {} (other way round)", len, off_a, off_b, ra, rb, if diff.len() > 6 { &diff[..6] } else { diff }, g1, g2));
    }
    None
}

fn hamming(rep: &mut Report, quick: bool) {
    let mut lens: Vec<usize> = (0..=70).collect();
    lens.extend([95, 96, 97, 127, 128, 129, 255, 256, 257, 1023, 1024, 1025, 2047, 2048, 2049]);
    if !quick {
        lens.extend([3071, 3072, 4095, 4096, 4097, 5000]);
    } else {
        lens.extend([4096]);
    }
    let offs = [0usize, 1, 31, 32, 33];
    let mut cases: Vec<(usize, usize, usize, bool, bool, Vec<usize>)> = vec![];
    for &len in &lens {
        for oa in offs {
            for ob in offs {
                for (ra, rb) in [(false, false), (true, true), (false, true), (true, false)] {
                    // every single position only for equal offsets and for the aligned/unaligned corner pairs
                    let full = oa == ob || (oa == 0 && ob == 1) || (oa == 33 && ob == 32) || (oa == 32 && ob == 31);
                    cases.push((len, oa, ob, ra, rb, vec![]));
                    if len > 0 {
                        cases.push((len, oa, ob, ra, rb, (0..len).collect()));
                        if len >= 2 {
                            cases.push((len, oa, ob, ra, rb, vec![0, len - 1]));
                        }
                        let singles: Vec<usize> = if !full || (quick && len > 1100) { (0..len).filter(|p| *p < 3 || *p % 31 == 0 || *p % 32 == 0 || *p + 3 >= len).collect() } else { (0..len).collect() };
                        for p in singles {
                            cases.push((len, oa, ob, ra, rb, vec![p]));
                        }
                    }
                }
            }
        }
    }
    let fails: Vec<(usize, usize, usize, bool, bool, Vec<usize>, String)> = cases.par_iter().filter_map(|(l, oa, ob, ra, rb, d)| std::panic::catch_unwind(|| hamming_case(*l, *oa, *ob, *ra, *rb, d)).unwrap_or(Some("hamming_dist panicked".into())).map(|m| (*l, *oa, *ob, *ra, *rb, d.clone(), m))).collect();
    rep.count("hamming:cases", cases.len() as u64);
    rep.count("hamming:cases_len_ge_1024", cases.iter().filter(|c| c.0 >= 1024).count() as u64);
    rep.count("hamming:cases_with_different_offsets_or_strands", cases.iter().filter(|c| c.1 != c.2 || c.3 != c.4).count() as u64);
    rep.states += cases.len() as u64;
    rep.evaluations += cases.len() as u64;
    rep.transitions += cases.len() as u64 * 2;
    rep.nontrivial += cases.iter().filter(|c| !c.5.is_empty()).count() as u64;
    let mut fails = fails;
    fails.sort();
    for (l, oa, ob, ra, rb, d, m) in fails.into_iter().take(5) {
        rep.violation(Violation { signature: "hamming-dist-wrong".into(), case: json!({"hamming": {"len": l, "offset_a": oa, "offset_b": ob, "rc_a": ra, "rc_b": rb, "diff": d}}), detail: m });
    }
}

fn backings(quick: bool) -> Vec<S> {
    let mut v: Vec<S> = vec![];
    for len in 0..=(if quick { 5 } else { 7 }) {
        v.extend(all_strings(len));
    }
    for n in [7usize, 33, 70, 300] {
        v.push((0..n).map(|i| ((i * 7 + i / 3 + 1) % 4) as u8).collect());
    }
    v
}

pub fn check(tier: &str, rep: &mut Report) {
    rep.engine = "E2 explicit-state search (stateright BFS) over compositions of slice()/rc() views; E1 exhaustive Hamming sweep over lengths x offsets x strands x difference sets".into();
    let quick = tier == "quick";
    let bound = if quick { 4 } else { 5 };
    let bs = backings(quick);
    let mut tot_u = 0;
    let mut tot_g = 0;
    let mut reported = 0;
    for b in &bs {
        let r = explore(b, if b.len() > 100 { bound.min(3) } else { bound });
        tot_u += r.unique;
        tot_g += r.generated;
        if b.len() >= 7 {
            vcommon::e2::record(rep, &format!("views(backing len {})", b.len()), json!({"engine": "E2", "backing": ascii(b), "bound": bound}), &r, &|_| "view-not-exact".to_string());
        } else {
            rep.states += r.unique;
            rep.transitions += r.generated;
            rep.evaluations += r.unique;
            for (name, acts, last) in &r.discoveries {
                if reported < 3 {
                    reported += 1;
                    // classify by re-evaluating
                    rep.violation(Violation { signature: "view-not-exact".into(), case: json!({"model": {"engine": "E2", "backing": ascii(b), "bound": bound}, "property": name, "actions": acts}), detail: format!("view over backing {} after {:?}: {}", ascii(b), acts, last) });
                }
            }
        }
    }
    rep.count("views:backing_strings", bs.len() as u64);
    rep.count("views:unique_states", tot_u);
    rep.count("views:generated_states", tot_g);
    rep.nontrivial += tot_u / 2;
    hamming(rep, quick);
    rep.sample(json!({"backing": "len 33 counter", "history": ["init slice(1, 33)", "Rc", "Slice(2, 30)", "Rc"], "invariant": "len/get/iter/bytes/ascii/to_dna_string/Display/Debug/to_owned/==/hamming 0 and 1/get_kmer+iter_kmers for K in {3,4,16,32} == substring model"}));
    rep.sample(json!({"hamming": {"len": 1025, "offset_a": 32, "offset_b": 33, "rc_a": false, "rc_b": true, "diff": [0]}}));
    rep.rule = format!("E2: backing strings = ALL strings of length 0..{} plus counter strings of length 7, 33, 70, 300; init states = prefix(k), suffix(k), slice(a,b) at boundary coordinates; actions rc() and slice(x,y) at boundary coordinates of the current view; {} compositions deep (depth in the state key); invariant: the view reads, renders (bytes, ASCII, text, Debug for len<256), converts, compares and yields k-mers exactly as the model substring. E1: hamming_dist for lengths 0..70, 95..97, 127..129, 255..257, 1023..1025, 2047..2049, 4096 (thorough: up to 5000), EVERY pair of offsets from {{0,1,31,32,33}} for the two operands, all four strand combinations, both argument orders, difference sets none / all / first+last / single positions (EVERY position for equal offsets and three aligned/unaligned corner pairs, block-boundary positions otherwise; quick: boundary-dense subset for lengths > 1100). distinct_nontrivial = half of the view states (views of length >= 2, counted conservatively) + Hamming cases with >= 1 difference", if quick { 5 } else { 7 }, bound);
    rep.assumptions.push("view compositions are depth-bounded".into());
    rep.floor("hamming:cases_len_ge_1024", 1000);
    rep.floor("views:unique_states", 5000);
    // conservative correction of the non-trivial count: measured below
    let _ = tot_g;
}

pub fn replay(c: &Value) -> Vec<String> {
    if let Some(h) = c.get("hamming") {
        let d: Vec<usize> = h["diff"].as_array().map(|a| a.iter().map(|x| x.as_u64().unwrap() as usize).collect()).unwrap_or_default();
        return hamming_case(h["len"].as_u64().unwrap() as usize, h["offset_a"].as_u64().unwrap() as usize, h["offset_b"].as_u64().unwrap() as usize, h["rc_a"].as_bool().unwrap(), h["rc_b"].as_bool().unwrap(), &d).into_iter().collect();
    }
    let b = from_ascii(c["model"]["backing"].as_str().unwrap_or(""));
    let bound = c["model"]["bound"].as_u64().unwrap_or(3) as u8;
    explore(&b, bound).discoveries.iter().map(|(n, a, s)| format!("{} after {:?}: {}", n, a, s.chars().take(300).collect::<String>())).collect()
}
