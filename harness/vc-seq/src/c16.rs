//! C16 - ASCII ingestion is total and path-independent (E1 + hook FORCE_SCALAR_ASCII).
use debruijn::dna_string::DnaString;
use debruijn::verif_hooks::FORCE_SCALAR_ASCII;
use debruijn::Mer;
use rayon::prelude::*;
use serde_json::{json, Value};
use std::collections::hash_map::DefaultHasher;
use std::collections::BTreeMap;
use std::hash::{Hash, Hasher};
use std::sync::Mutex;
use vcommon::report::{Report, Violation};
use vcommon::seq::*;

fn h<T: Hash>(t: &T) -> u64 {
    let mut x = DefaultHasher::new();
    t.hash(&mut x);
    x.finish()
}
/// the harness's own byte table (independent of the crate's base_to_bits)
fn bits(c: u8) -> Option<u8> {
    match c {
        65 | 97 => Some(0),
        67 | 99 => Some(1),
        71 | 103 => Some(2),
        84 | 116 => Some(3),
        _ => None,
    }
}
fn conv(bytes: &[u8], scalar: bool) -> DnaString {
    FORCE_SCALAR_ASCII.with(|c| c.set(scalar));
    let d = DnaString::from_acgt_bytes(bytes);
    FORCE_SCALAR_ASCII.with(|c| c.set(false));
    d
}

pub fn lenient_case(bytes: &[u8]) -> Option<String> {
    let want: S = bytes.iter().map(|c| bits(*c).unwrap_or(0)).collect();
    let canon = DnaString::from_bytes(&want);
    let v = conv(bytes, false);
    let s = conv(bytes, true);
    for (name, d) in [("vector path", &v), ("scalar path", &s)] {
        if d.len() != bytes.len() || d.to_bytes() != want {
            let at = (0..bytes.len().min(d.len())).find(|i| d.to_bytes()[*i] != want[*i]);
            return Some(format!("{}: len {} (want {}), first wrong base at {:?} (byte {:?})", name, d.len(), bytes.len(), at, at.map(|i| bytes[i])));
        }
        if *d != canon || h(d) != h(&canon) {
            return Some(format!("{}: bases right but raw value / hash differ from from_bytes (padding or block count)", name));
        }
        let up: Vec<u8> = bytes.iter().map(|c| match bits(*c) { Some(b) => b"ACGT"[b as usize], None => b'A' }).collect();
        if d.to_ascii_vec() != up || d.to_string().as_bytes() != &up[..] {
            return Some(format!("{}: rendering back does not give the upper-cased input with non-ACGT -> A", name));
        }
    }
    if v != s {
        return Some("vector and scalar paths disagree".into());
    }
    if bytes.iter().all(|c| *c < 128) {
        let st = std::str::from_utf8(bytes).unwrap();
        if DnaString::from_dna_string(st) != v {
            return Some("from_dna_string disagrees with from_acgt_bytes on ASCII text".into());
        }
    }
    None
}

fn strict_expect(s: &str) -> Vec<S> {
    let mut out = vec![];
    let mut cur: S = vec![];
    for ch in s.chars() {
        let b = if (ch as u32) < 128 { bits(ch as u8) } else { None };
        match b {
            Some(x) => cur.push(x),
            None => {
                if !cur.is_empty() {
                    out.push(std::mem::take(&mut cur));
                }
            }
        }
    }
    if !cur.is_empty() {
        out.push(cur);
    }
    out
}
pub fn strict_case(s: &str) -> Option<String> {
    let got: Vec<S> = DnaString::from_dna_only_string(s).iter().map(|d| d.to_bytes()).collect();
    let want = strict_expect(s);
    if got != want {
        return Some(format!("from_dna_only_string({:?}) = {:?}, maximal ACGT runs are {:?}", s, got.iter().map(|x| ascii(x)).collect::<Vec<_>>(), want.iter().map(|x| ascii(x)).collect::<Vec<_>>()));
    }
    for d in DnaString::from_dna_only_string(s) {
        if d != DnaString::from_bytes(&d.to_bytes()) {
            return Some(format!("from_dna_only_string({:?}): run has a non-canonical raw value", s));
        }
    }
    None
}

pub fn hashn_case(bytes: &[u8], name: &[u8], table: &Mutex<BTreeMap<(Vec<u8>, usize), (u8, Vec<u8>)>>) -> Option<(String, Option<Vec<u8>>)> {
    let a = DnaString::from_acgt_bytes_hashn(bytes, name);
    let b = DnaString::from_acgt_bytes_hashn(bytes, name);
    if a != b {
        return Some(("two runs on the same input differ".into(), None));
    }
    if a.len() != bytes.len() || a != DnaString::from_bytes(&a.to_bytes()) {
        return Some(("length or raw value wrong".into(), None));
    }
    let mut t = table.lock().unwrap();
    for (i, c) in bytes.iter().enumerate() {
        let g = a.get(i);
        match bits(*c) {
            Some(x) => {
                if g != x {
                    return Some((format!("ACGT byte {:?} at {} became {}", *c as char, i, g), None));
                }
            }
            None => {
                if g > 3 {
                    return Some((format!("substitute {} at {} is not a base", g, i), None));
                }
                let e = t.entry((name.to_vec(), i)).or_insert((g, bytes.to_vec()));
                if e.0 != g {
                    return Some((format!("substitute at (name {:?}, pos {}) is {} here but {} for input {:?}: not a function of (read name, position)", String::from_utf8_lossy(name), i, g, e.0, String::from_utf8_lossy(&e.1)), Some(e.1.clone())));
                }
            }
        }
    }
    None
}

fn strings_over(alpha: &[u8], maxlen: usize) -> Vec<Vec<u8>> {
    let mut out = vec![vec![]];
    let mut layer = vec![vec![]];
    for _ in 0..maxlen {
        let mut next = vec![];
        for s in &layer {
            for a in alpha {
                let mut t: Vec<u8> = s.clone();
                t.push(*a);
                next.push(t);
            }
        }
        out.extend(next.iter().cloned());
        layer = next;
    }
    out
}

pub fn check(tier: &str, rep: &mut Report) {
    rep.engine = "E1 bounded-exhaustive exploration of ASCII ingestion: every byte value x every lane x backgrounds, lane pairs, all lengths, both internal paths (hook), strict and hashed-N constructors".into();
    let quick = tier == "quick";
    let avx2 = std::is_x86_feature_detected!("avx2");
    let mut cases: Vec<Vec<u8>> = vec![];
    // 1. every byte value at every lane of a 32-byte block, three backgrounds, several tails (hot byte also in the tail)
    for lane in 0..32 {
        for v in 0..=255u8 {
            for bg in [b'A', b'T', b'g'] {
                for extra in [0usize, 1, 31, 32, 33] {
                    let mut b = vec![bg; 32 + extra];
                    b[lane] = v;
                    if extra > 0 {
                        b[32 + (lane % extra)] = v;
                    }
                    cases.push(b);
                }
            }
        }
    }
    let n1 = cases.len();
    // 2. every lane pair x every base pair
    for i in 0..32 {
        for j in i + 1..32 {
            for a in b"ACGT" {
                for c in b"acgt" {
                    let mut b = vec![b'N'; 32];
                    b[i] = *a;
                    b[j] = *c;
                    cases.push(b);
                }
            }
        }
    }
    let n2 = cases.len() - n1;
    // 3. every length 0..=140 (0-4 blocks plus every tail length), mixed content
    for len in 0..=140usize {
        for shift in 0..4 {
            cases.push((0..len).map(|i| b"ACGTacgtNn.-\x00\xff"[(i * 7 + len + shift * 3) % 14]).collect());
        }
        cases.push(vec![b'T'; len]);
    }
    let n3 = cases.len() - n1 - n2;
    // 4. all strings over a 6-letter alphabet up to length 6 (thorough 7), at offsets 0 and 30 (straddling the block/tail seam)
    for s in strings_over(&[b'A', b'c', b'G', b't', b'N', 0u8], if quick { 6 } else { 7 }) {
        cases.push(s.clone());
        let mut b = vec![b'C'; 30];
        b.extend_from_slice(&s);
        b.extend_from_slice(b"gg");
        cases.push(b);
        let mut b = vec![b'C'; 62];
        b.extend_from_slice(&s);
        cases.push(b);
    }
    let n4 = cases.len() - n1 - n2 - n3;
    let fails: Vec<(usize, String)> = cases.par_iter().enumerate().filter_map(|(i, b)| std::panic::catch_unwind(|| lenient_case(b)).unwrap_or(Some("ingestion panicked".into())).map(|m| (i, m))).collect();
    for (i, m) in fails.iter().take(5) {
        rep.violation(Violation { signature: "ascii-ingestion-wrong".into(), case: json!({"lenient": cases[*i]}), detail: format!("from_acgt_bytes on {:?}: {}", String::from_utf8_lossy(&cases[*i]).chars().take(80).collect::<String>(), m) });
    }
    rep.count("lenient:byte_x_lane_x_background_x_tail", n1 as u64);
    rep.count("lenient:lane_pairs", n2 as u64);
    rep.count("lenient:lengths", n3 as u64);
    rep.count("lenient:alphabet_strings_at_seams", n4 as u64);
    rep.states += cases.len() as u64;
    rep.evaluations += cases.len() as u64;
    rep.transitions += cases.len() as u64 * 3;
    rep.nontrivial += cases.iter().filter(|b| b.iter().any(|c| bits(*c).is_none()) && b.len() >= 32).count() as u64;

    // strict constructor
    let mut strict: Vec<String> = strings_over(&[b'A', b'c', b'N', b' ', b'T', b'\n'], if quick { 7 } else { 8 }).into_iter().map(|b| String::from_utf8(b).unwrap()).collect();
    for pre in ["", "A", "AC"] {
        for ch in ['\u{141}', '\u{143}', '\u{147}', '\u{154}', '\u{161}', '\u{163}', '\u{167}', '\u{174}', '\u{e9}', '\u{4e2d}', '\u{1f600}', '\u{c1}', '\u{3c4}'] {
            for post in ["", "G", "gt"] {
                strict.push(format!("{}{}{}", pre, ch, post));
                strict.push(format!("{}{}{}{}", pre, ch, ch, post));
            }
        }
    }
    let sf: Vec<(usize, String)> = strict.par_iter().enumerate().filter_map(|(i, s)| std::panic::catch_unwind(|| strict_case(s)).unwrap_or(Some("panicked".into())).map(|m| (i, m))).collect();
    for (i, m) in sf.iter().take(5) {
        rep.violation(Violation { signature: "strict-constructor-wrong-runs".into(), case: json!({"strict": strict[*i]}), detail: m.clone() });
    }
    rep.count("strict:strings", strict.len() as u64);
    rep.count("strict:with_non_ascii_char", strict.iter().filter(|s| !s.is_ascii()).count() as u64);
    rep.states += strict.len() as u64;
    rep.evaluations += strict.len() as u64;
    rep.transitions += strict.len() as u64;
    rep.nontrivial += strict.iter().filter(|s| strict_expect(s).len() >= 2).count() as u64;

    // hashed-N constructor
    let table = Mutex::new(BTreeMap::new());
    let mut hn = strings_over(&[b'A', b'C', b'g', b't', b'N', b'n', b'.'], if quick { 6 } else { 7 });
    // long inputs (several 32-byte chunks): one non-ACGT byte at EVERY position, and every pair of positions,
    // over an ACGT background - the substitute must depend on (read name, position in the READ) and every
    // genuine base must stay untouched wherever the chunk boundaries fall
    for len in [31usize, 32, 33, 63, 64, 65, 70, 100, 129] {
        let bg: Vec<u8> = (0..len).map(|i| b"ACGTTGCAacgt"[(i * 7 + len) % 12]).collect();
        for pos in 0..len {
            for sub in [b'N', b'n', b'.', 0x80u8] {
                let mut x = bg.clone();
                x[pos] = sub;
                hn.push(x);
            }
        }
        if len <= 70 {
            for p1 in 0..len {
                for p2 in p1 + 1..len {
                    if quick && (p1 + p2) % 3 != 0 {
                        continue;
                    }
                    let mut x = bg.clone();
                    x[p1] = b'N';
                    x[p2] = b'-';
                    hn.push(x);
                }
            }
        }
    }
    let names: [&[u8]; 3] = [b"read/1", b"read/2", b""];
    let hf: Vec<(usize, usize, (String, Option<Vec<u8>>))> = hn.par_iter().enumerate().flat_map_iter(|(i, b)| names.iter().enumerate().filter_map(|(j, nm)| hashn_case(b, nm, &table).map(|m| (i, j, m))).collect::<Vec<_>>()).collect();
    for (i, j, (m, other)) in hf.iter().take(5) {
        rep.violation(Violation { signature: "hashed-n-not-a-function".into(), case: json!({"hashn": hn[*i], "name": names[*j], "other_input": other}), detail: format!("from_acgt_bytes_hashn({:?}, {:?}): {}", String::from_utf8_lossy(&hn[*i]), String::from_utf8_lossy(names[*j]), m) });
    }
    let subs = table.lock().unwrap();
    let distinct_by_name: Vec<usize> = names.iter().map(|n| subs.iter().filter(|((nm, _), _)| nm == n).map(|(_, v)| v.0).collect::<std::collections::BTreeSet<u8>>().len()).collect();
    rep.count("hashn:strings_x_names", (hn.len() * 3) as u64);
    rep.count("hashn:substituted_positions", subs.len() as u64);
    rep.extra.insert("hashn_distinct_substitutes_per_name".into(), json!(distinct_by_name));
    rep.states += (hn.len() * 3) as u64;
    rep.evaluations += (hn.len() * 3) as u64;
    rep.transitions += (hn.len() * 6) as u64;
    // the byte-level helpers behind all constructors and renderings
    for c in 0..=255u8 {
        let want = bits(c);
        let ok = debruijn::base_to_bits(c) == want.unwrap_or(0) && debruijn::dna_only_base_to_bits(c) == want && debruijn::is_valid_base(c) == want.is_some();
        if !ok {
            rep.violation(Violation { signature: "byte-helper-wrong".into(), case: json!({"helper_byte": c}), detail: format!("base_to_bits / dna_only_base_to_bits / is_valid_base disagree with the table for byte {:#04x}", c) });
        }
        let (a, b) = (debruijn::bits_to_ascii(c), debruijn::bits_to_base(c));
        let wanted = if c < 4 { b"ACGT"[c as usize] } else { b'X' };
        if a != wanted || b != wanted as char {
            rep.violation(Violation { signature: "byte-helper-wrong".into(), case: json!({"helper_byte": c}), detail: format!("bits_to_ascii / bits_to_base({}) = {:?} / {:?}", c, a as char, b) });
        }
    }
    rep.transitions += 512;
    rep.extra.insert("avx2_available".into(), json!(avx2));
    if !avx2 {
        rep.assumptions.push("this machine has no AVX2: both runs used the scalar path, the vector path was NOT exercised".into());
        rep.machinery_errors.push("AVX2 not available: vector path not exercised".into());
    }
    rep.sample(json!({"lenient": "32-byte block of 'g' with byte 0x8d at lane 17 plus a 33-byte tail", "paths": ["vector (AVX2)", "scalar (hook FORCE_SCALAR_ASCII)"]}));
    rep.sample(json!({"strict": "Ac\u{141}T N"}));
    rep.sample(json!({"hashn": "AN.gtn", "names": ["read/1", "read/2", ""]}));
    rep.rule = "from_acgt_bytes on both internal paths: EVERY byte value 0..255 at EVERY lane 0..31 on backgrounds {A,T,g} x tails {0,1,(31,)32,33} with the byte repeated in the tail; every lane pair x 16 base pairs; every length 0..140; ALL strings over {A,c,G,t,N,0x00} up to length 6 (thorough 7) at offsets 0, 30 and 62; oracle: harness byte table, raw equality with from_bytes, vector == scalar, agreement with from_dna_string on ASCII, rendering back. Strict constructor: ALL strings up to length 7 (thorough 8) over {A,c,N,' ',T,'\\n'} plus non-ASCII chars whose low byte is an ACGT letter; hashed-N: ALL strings up to length 6 (7) over {A,C,g,t,N,n,.} x 3 read names: ACGT untouched, substitutes valid, one global (name,pos)->base table without conflicts, two runs equal. Non-trivial = lenient inputs >= one block containing a non-ACGT byte, strict inputs giving >= 2 runs".into();
    rep.floor("strict:with_non_ascii_char", 50);
}

pub fn replay(c: &Value) -> Vec<String> {
    let bytes = |v: &Value| -> Vec<u8> { v.as_array().map(|a| a.iter().map(|x| x.as_u64().unwrap() as u8).collect()).unwrap_or_default() };
    if let Some(l) = c.get("lenient") {
        return lenient_case(&bytes(l)).into_iter().collect();
    }
    if let Some(s) = c.get("strict") {
        return strict_case(s.as_str().unwrap_or("")).into_iter().collect();
    }
    if let Some(hn) = c.get("hashn") {
        let t = Mutex::new(BTreeMap::new());
        if c.get("other_input").map(|o| o.is_array()).unwrap_or(false) {
            let _ = hashn_case(&bytes(&c["other_input"]), &bytes(&c["name"]), &t);
        }
        return hashn_case(&bytes(hn), &bytes(&c["name"]), &t).into_iter().map(|x| x.0).collect();
    }
    vec!["unknown case".into()]
}
