//! C17 - fixed-size DNA strings (Lmer) behave as strings (E1 over every capacity/length/write,
//! E2 over write histories).
use crate::types::words;
use debruijn::kmer::*;
use debruijn::vmer::*;
use debruijn::{Kmer, Mer, Vmer};
use rayon::prelude::*;
use serde_json::{json, Value};
use stateright::{Model, Property};
use std::collections::hash_map::DefaultHasher;
use std::hash::{Hash, Hasher};
use vcommon::report::{Report, Violation};
use vcommon::seq::*;
use vglue::kstr;

fn h<T: Hash>(t: &T) -> u64 {
    let mut x = DefaultHasher::new();
    t.hash(&mut x);
    x.finish()
}

pub fn agrees<A: Array<Item = u64> + Copy + Eq + Ord + Hash>(l: &Lmer<A>, m: &[u8]) -> Option<String> {
    macro_rules! need { ($c:expr, $($a:tt)*) => { if !($c) { return Some(format!($($a)*)); } } }
    need!(l.len() == m.len() && l.is_empty() == m.is_empty(), "len {} want {}", l.len(), m.len());
    need!((0..m.len()).all(|i| l.get(i) == m[i]), "get(i): reads {:?}", (0..l.len().min(100)).map(|i| l.get(i)).collect::<Vec<u8>>());
    need!(l.iter().collect::<Vec<u8>>() == m, "iter");
    let canon = Lmer::<A>::from_slice(m);
    need!(*l == canon, "raw value differs from from_slice(model): bits outside the addressed bases changed (length byte or garbage beyond len)");
    need!(h(l) == h(&canon) && l.cmp(&canon) == std::cmp::Ordering::Equal, "hash/cmp differ from from_slice(model)");
    None
}

/// every write on one (capacity, length, background) triple
fn writes<A: Array<Item = u64> + Copy + Eq + Ord + Hash + Send + Sync>(len: usize, bgk: u8) -> (u64, Vec<String>) {
    let mut n = 0u64;
    let mut bad: Vec<String> = vec![];
    macro_rules! chk { ($e:expr, $($a:tt)*) => { n += 1; if let Some(m) = $e { if bad.len() < 3 { bad.push(format!("{}: {}", format!($($a)*), m)); } } } }
    let base: S = (0..len).map(|i| if bgk == 9 { ((i * 5 + 1) % 4) as u8 } else { bgk }).collect();
    let l: Lmer<A> = Lmer::from_slice(&base);
    chk!(agrees(&l, &base), "from_slice len {}", len);
    let blank: Lmer<A> = Lmer::new(len);
    chk!(agrees(&blank, &vec![0u8; len]), "new({})", len);
    let r = l.rc();
    chk!(agrees(&r, &rc(&base)), "rc len {}", len);
    for pos in 0..len {
        for b in 0..4u8 {
            let mut x = l;
            x.set_mut(pos, b);
            let mut m = base.clone();
            m[pos] = b;
            chk!(agrees(&x, &m), "set_mut({}, {}) len {}", pos, b, len);
        }
        for nb in 1..=std::cmp::min(32, len - pos) {
            for (vals, w) in words() {
                let mut x = l;
                x.set_slice_mut(pos, nb, w);
                let mut m = base.clone();
                m[pos..pos + nb].copy_from_slice(&vals[..nb]);
                chk!(agrees(&x, &m), "set_slice_mut(pos {}, n {}, word {:#018x}) len {}", pos, nb, w, len);
            }
        }
    }
    macro_rules! gk { ($($t:ty),*) => { $( {
        let k = <$t>::k();
        let want = windows(&base, k);
        let got: Vec<S> = l.iter_kmers::<$t>().map(|x| kstr(&x)).collect();
        n += 1;
        if got != want { if bad.len() < 3 { bad.push(format!("iter_kmers K={} len {}", k, len)); } }
        for (p, w) in want.iter().enumerate() {
            n += 1;
            if kstr(&l.get_kmer::<$t>(p)) != *w { if bad.len() < 3 { bad.push(format!("get_kmer::<K={}>({}) len {}", k, p, len)); } }
        }
    } )* } }
    gk!(Kmer3, Kmer4, Kmer8, Kmer15, Kmer16, Kmer30, Kmer32, Kmer40, Kmer64);
    (n, bad)
}

// ------------------------------------------------------------------ E2
#[derive(Clone, Debug, Hash, PartialEq, Eq)]
pub struct LSt<A: Array<Item = u64> + Copy + Eq + Ord + Hash> {
    pub imp: Lmer<A>,
    pub model: S,
    pub depth: u8,
}
#[derive(Clone, Debug, PartialEq, Eq, Hash)]
pub enum LOp {
    Set(usize, u8),
    SetSlice(usize, usize, usize),
    Rc,
}
pub struct LM<A> {
    pub bound: u8,
    pub lens: Vec<usize>,
    pub _a: std::marker::PhantomData<A>,
}
impl<A: Array<Item = u64> + Copy + Eq + Ord + Hash + std::fmt::Debug + Send + Sync + 'static> Model for LM<A> {
    type State = LSt<A>;
    type Action = LOp;
    fn init_states(&self) -> Vec<LSt<A>> {
        self.lens.iter().filter(|l| **l <= Lmer::<A>::max_len()).map(|&l| {
            let m: S = (0..l).map(|i| ((i * 3 + 2) % 4) as u8).collect();
            LSt { imp: Lmer::from_slice(&m), model: m, depth: 0 }
        }).collect()
    }
    fn actions(&self, s: &LSt<A>, a: &mut Vec<LOp>) {
        if s.depth >= self.bound {
            return;
        }
        let l = s.model.len();
        a.push(LOp::Rc);
        let mut ps = vec![0usize, 1, 30, 31, 32, 33, 62, 63, 64, 65, l.saturating_sub(2), l.saturating_sub(1)];
        ps.retain(|p| *p < l);
        ps.sort();
        ps.dedup();
        for &p in &ps {
            a.push(LOp::Set(p, 3));
            a.push(LOp::Set(p, 0));
            let mut runs = vec![1usize, 2, 31, 32, l - p];
            runs.retain(|n| *n >= 1 && *n <= 32 && p + *n <= l);
            runs.sort();
            runs.dedup();
            for n in runs {
                for w in [0usize, 2] {
                    a.push(LOp::SetSlice(p, n, w));
                }
            }
        }
    }
    fn next_state(&self, s: &LSt<A>, op: LOp) -> Option<LSt<A>> {
        let mut t = s.clone();
        t.depth += 1;
        let ws = words();
        match op {
            LOp::Set(p, b) => {
                t.imp.set_mut(p, b);
                t.model[p] = b;
            }
            LOp::SetSlice(p, n, w) => {
                t.imp.set_slice_mut(p, n, ws[w].1);
                t.model[p..p + n].copy_from_slice(&ws[w].0[..n]);
            }
            LOp::Rc => {
                t.imp = t.imp.rc();
                t.model = rc(&t.model);
            }
        }
        Some(t)
    }
    fn properties(&self) -> Vec<Property<Self>> {
        vec![Property::always("lmer-is-the-string", |_, s: &LSt<A>| agrees(&s.imp, &s.model).is_none())]
    }
}

const E2_LENS: [usize; 14] = [0, 1, 27, 28, 31, 32, 33, 59, 60, 63, 64, 65, 91, 92];

fn e2<A: Array<Item = u64> + Copy + Eq + Ord + Hash + std::fmt::Debug + Send + Sync + 'static>(cap: usize, bound: u8, rep: &mut Report) -> vcommon::e2::E2Result {
    let r = vcommon::e2::explore_opt(LM::<A> { bound, lens: E2_LENS.to_vec(), _a: std::marker::PhantomData }, None);
    vcommon::e2::record(rep, &format!("E2/Lmer<[u64;{}]>", cap), json!({"engine": "E2", "capacity": cap, "bound": bound}), &r, &|_| "lmer-write-leaks".to_string());
    r
}

pub fn check(tier: &str, rep: &mut Report) {
    rep.engine = "E1 bounded-exhaustive exploration of every Lmer capacity x length x write position x run length x value word; E2 stateright BFS over write histories".into();
    let quick = tier == "quick";
    let mut total = 0u64;
    macro_rules! cap { ($($c:expr),*) => { $( {
        type A = [u64; $c];
        let maxl = Lmer::<A>::max_len();
        let jobs: Vec<(usize, u8)> = (0..=maxl).flat_map(|l| [0u8, 3, 9].into_iter().map(move |b| (l, b))).collect();
        let res: Vec<((usize, u8), (u64, Vec<String>))> = jobs.par_iter().map(|(l, b)| ((*l, *b), std::panic::catch_unwind(|| writes::<A>(*l, *b)).unwrap_or((1, vec!["panicked".into()])))).collect();
        let mut n = 0;
        for ((l, b), (k, bad)) in res {
            n += k;
            for m in bad.into_iter().take(1) {
                rep.violation(Violation { signature: "lmer-write-leaks".into(), case: json!({"capacity": $c, "len": l, "background": b}), detail: format!("Lmer<[u64;{}]> {}", $c, m) });
            }
        }
        rep.count(&format!("E1/Lmer<[u64;{}]>:checks", $c), n);
        rep.count(&format!("E1/Lmer<[u64;{}]>:length_x_background", $c), jobs.len() as u64);
        rep.states += jobs.len() as u64;
        rep.evaluations += jobs.len() as u64;
        rep.nontrivial += jobs.iter().filter(|(l, _)| *l > 32 || *l + 4 >= maxl).count() as u64;
        total += n;
    } )* } }
    cap!(1, 2, 3, 4, 5, 6);
    // equality between DIFFERENT values: a == b exactly when the strings are equal (both argument orders), equal
    // values hash alike; the value set holds every string of <= 3 bases and, around every word boundary, a pattern
    // and the same pattern with one more trailing A (they differ in the stored length only)
    macro_rules! eqs { ($($c:expr),*) => { $( {
        type A = [u64; $c];
        let maxl = Lmer::<A>::max_len();
        let mut vals: Vec<S> = vec![];
        for len in 0..=3usize {
            for x in 0..count_strings(len) {
                vals.push(nth_string(len, x));
            }
        }
        for len in [30usize, 31, 32, 33, 63, 64, 65, 95, 96, 97, maxl - 1, maxl] {
            if len <= maxl {
                vals.push(vec![0u8; len]);
                vals.push((0..len).map(|i| ((i * 5 + 1) % 4) as u8).collect());
                vals.push((0..len).map(|i| if i < 3 { 1 + (i % 3) as u8 } else { 0 }).collect());
            }
        }
        vals.sort();
        vals.dedup();
        let ls: Vec<Lmer<A>> = vals.iter().map(|v| Lmer::from_slice(v)).collect();
        let mut n = 0u64;
        'outer: for i in 0..vals.len() {
            for j in 0..vals.len() {
                n += 1;
                let want = vals[i] == vals[j];
                if (ls[i] == ls[j]) != want || (want && h(&ls[i]) != h(&ls[j])) {
                    rep.violation(Violation { signature: "lmer-equality-wrong".into(), case: json!({"capacity": $c, "a": ascii(&vals[i]), "b": ascii(&vals[j])}), detail: format!("Lmer<[u64;{}]>: from_slice({}) == from_slice({}) is {}, hashes equal: {}; the strings are {}", $c, ascii(&vals[i]), ascii(&vals[j]), ls[i] == ls[j], h(&ls[i]) == h(&ls[j]), if want { "equal" } else { "different" }) });
                    break 'outer;
                }
            }
        }
        rep.count(&format!("E1/Lmer<[u64;{}]>:value_pairs_compared", $c), n);
        total += n;
    } )* } }
    eqs!(1, 2, 3, 4, 5, 6);
    rep.transitions += total;
    let bound = if quick { 4 } else { 5 };
    let mut u = 0;
    u += e2::<[u64; 1]>(1, bound, rep).unique;
    u += e2::<[u64; 2]>(2, bound, rep).unique;
    u += e2::<[u64; 3]>(3, bound, rep).unique;
    if !quick {
        u += e2::<[u64; 4]>(4, bound.min(4), rep).unique;
        u += e2::<[u64; 6]>(6, bound.min(4), rep).unique;
    }
    rep.nontrivial += u / 2;
    rep.count("E2:unique_states_total", u);
    rep.sample(json!({"capacity": 2, "len": 60, "background": "counter", "write": "set_slice_mut(pos 31, n 29, counter word) - crosses the word boundary and ends at the last base before the length byte"}));
    rep.sample(json!({"capacity": 3, "history": ["init len 92", "SetSlice(64, 28, T-word)", "Rc", "Set(91, A)"]}));
    rep.rule = format!("E1: capacities 1..6 words x EVERY length 0..=max_len x backgrounds {{A, T, counter}} x (set_mut: every position x 4 bases; set_slice_mut: every position x every run length 1..=min(32, len-pos) x 4 value words incl. garbage below the run; rc; new; from_slice; get_kmer/iter_kmers for 9 K types): length unchanged, only addressed bases change, raw equality / hash / order with from_slice(expected). E2: stateright BFS {} writes deep (set_mut, set_slice_mut at word-boundary positions, rc) from lengths {:?} for capacities 1..3 (thorough also 4 and 6); invariant: raw value equals from_slice(model) in every state. Non-trivial = lengths spanning two words or within 4 bases of max_len; half of the E2 states", bound, E2_LENS);
    rep.floor("E2:unique_states_total", 1000);
}

pub fn replay(c: &Value) -> Vec<String> {
    if c.get("model").is_some() {
        let cap = c["model"]["capacity"].as_u64().unwrap_or(1);
        let bound = c["model"]["bound"].as_u64().unwrap_or(3) as u8;
        let mut rep = Report::new("C17", "quick", "replay");
        match cap {
            1 => e2::<[u64; 1]>(1, bound, &mut rep),
            2 => e2::<[u64; 2]>(2, bound, &mut rep),
            3 => e2::<[u64; 3]>(3, bound, &mut rep),
            4 => e2::<[u64; 4]>(4, bound, &mut rep),
            _ => e2::<[u64; 6]>(6, bound, &mut rep),
        };
        return rep.violations.iter().map(|v| v.detail.clone()).collect();
    }
    if let (Some(a), Some(b)) = (c["a"].as_str(), c["b"].as_str()) {
        // one pair of values: equality / hash against the strings
        let (va, vb): (S, S) = (a.bytes().map(|x| b"ACGT".iter().position(|y| *y == x).unwrap_or(0) as u8).collect(), b.bytes().map(|x| b"ACGT".iter().position(|y| *y == x).unwrap_or(0) as u8).collect());
        fn pair<A: Array<Item = u64> + Copy + Eq + Ord + Hash>(va: &[u8], vb: &[u8]) -> Vec<String> {
            let (la, lb): (Lmer<A>, Lmer<A>) = (Lmer::from_slice(va), Lmer::from_slice(vb));
            let want = va == vb;
            if (la == lb) != want || (lb == la) != want || (want && h(&la) != h(&lb)) {
                vec![format!("from_slice({}) == from_slice({}) is {} / {} the other way round, the strings are {}", ascii(va), ascii(vb), la == lb, lb == la, if want { "equal" } else { "different" })]
            } else {
                vec![]
            }
        }
        return match c["capacity"].as_u64().unwrap_or(1) {
            1 => pair::<[u64; 1]>(&va, &vb),
            2 => pair::<[u64; 2]>(&va, &vb),
            3 => pair::<[u64; 3]>(&va, &vb),
            4 => pair::<[u64; 4]>(&va, &vb),
            5 => pair::<[u64; 5]>(&va, &vb),
            _ => pair::<[u64; 6]>(&va, &vb),
        };
    }
    let (l, b) = (c["len"].as_u64().unwrap_or(0) as usize, c["background"].as_u64().unwrap_or(0) as u8);
    match c["capacity"].as_u64().unwrap_or(1) {
        1 => writes::<[u64; 1]>(l, b).1,
        2 => writes::<[u64; 2]>(l, b).1,
        3 => writes::<[u64; 3]>(l, b).1,
        4 => writes::<[u64; 4]>(l, b).1,
        5 => writes::<[u64; 5]>(l, b).1,
        _ => writes::<[u64; 6]>(l, b).1,
    }
}
