//! vc-seq: C13 (k-mer extraction across containers), C14 (DnaString container), C15 (slices),
//! C16 (ASCII ingestion), C17 (Lmer).
#[macro_use]
pub mod types;
mod c13;
mod c14;
mod c15;
mod c16;
mod c17;

use vcommon::report::Report;

fn main() {
    vcommon::sweep::silence_panics();
    let args: Vec<String> = std::env::args().collect();
    if args.len() == 3 && args[1] == "--replay" {
        let v: serde_json::Value = serde_json::from_str(&std::fs::read_to_string(&args[2]).expect("read replay")).expect("json");
        let prop = v["property"].as_str().unwrap_or("").to_string();
        let run = |c: &serde_json::Value| -> Vec<String> {
            match prop.as_str() {
                "C13" => c13::replay(c),
                "C14" => c14::replay(c),
                "C15" => c15::replay(c),
                "C16" => c16::replay(c),
                "C17" => c17::replay(c),
                _ => vec!["unknown property".into()],
            }
        };
        let (a, b) = (run(&v["case"]), run(&v["case"]));
        if a != b {
            eprintln!("MACHINERY: replay not deterministic");
            std::process::exit(2);
        }
        if a.is_empty() {
            println!("property held on this case (both runs)");
            return;
        }
        for d in &a {
            println!("violation: {}", d);
        }
        println!("VIOLATION property={} replay={}", prop, args[2]);
        std::process::exit(1);
    }
    if args.len() != 3 {
        eprintln!("usage: vc-seq <C13..C17> <quick|thorough> | --replay <file>");
        std::process::exit(2);
    }
    let (prop, tier) = (args[1].as_str(), args[2].as_str());
    let mut rep = Report::new(prop, tier, "");
    let r = std::panic::catch_unwind(std::panic::AssertUnwindSafe(|| match prop {
        "C13" => c13::check(tier, &mut rep),
        "C14" => c14::check(tier, &mut rep),
        "C15" => c15::check(tier, &mut rep),
        "C16" => c16::check(tier, &mut rep),
        "C17" => c17::check(tier, &mut rep),
        _ => std::process::exit(2),
    }));
    if let Err(e) = r {
        vcommon::sweep::report_outer_panic(&mut rep, "uncaught", e);
    }
    std::process::exit(rep.finish());
}
