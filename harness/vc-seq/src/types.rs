//! The 20 instantiable k-mer types and the value families explored for each.
use vcommon::seq::*;

/// run `$body` once per k-mer type with `$K` bound to it and `$name` to its name
#[macro_export]
macro_rules! for_all_kmer_types {
    ($K:ident, $name:ident => $body:expr) => {{
        use debruijn::kmer::*;
        macro_rules! one { ($t:ty, $n:expr) => {{ type $K = $t; let $name: &str = $n; $body }}; }
        one!(Kmer2, "Kmer2"); one!(Kmer3, "Kmer3"); one!(Kmer4, "Kmer4"); one!(VarIntKmer<u8, K4>, "VarIntKmer<u8,K4>");
        one!(Kmer5, "Kmer5"); one!(Kmer6, "Kmer6"); one!(Kmer8, "Kmer8"); one!(Kmer10, "Kmer10"); one!(Kmer12, "Kmer12");
        one!(Kmer14, "Kmer14"); one!(Kmer15, "Kmer15"); one!(Kmer16, "Kmer16"); one!(Kmer20, "Kmer20"); one!(Kmer24, "Kmer24");
        one!(Kmer30, "Kmer30"); one!(VarIntKmer<u64, K31>, "VarIntKmer<u64,K31>"); one!(Kmer32, "Kmer32"); one!(Kmer40, "Kmer40");
        one!(Kmer48, "Kmer48"); one!(Kmer64, "Kmer64");
    }};
}

/// dispatch on a type name (replay)
#[macro_export]
macro_rules! with_kmer_named {
    ($n:expr, $K:ident => $body:expr) => {{
        use debruijn::kmer::*;
        match $n {
            "Kmer2" => { type $K = Kmer2; $body } "Kmer3" => { type $K = Kmer3; $body } "Kmer4" => { type $K = Kmer4; $body }
            "VarIntKmer<u8,K4>" => { type $K = VarIntKmer<u8, K4>; $body } "Kmer5" => { type $K = Kmer5; $body } "Kmer6" => { type $K = Kmer6; $body }
            "Kmer8" => { type $K = Kmer8; $body } "Kmer10" => { type $K = Kmer10; $body } "Kmer12" => { type $K = Kmer12; $body }
            "Kmer14" => { type $K = Kmer14; $body } "Kmer15" => { type $K = Kmer15; $body } "Kmer16" => { type $K = Kmer16; $body }
            "Kmer20" => { type $K = Kmer20; $body } "Kmer24" => { type $K = Kmer24; $body } "Kmer30" => { type $K = Kmer30; $body }
            "VarIntKmer<u64,K31>" => { type $K = VarIntKmer<u64, K31>; $body } "Kmer32" => { type $K = Kmer32; $body }
            "Kmer40" => { type $K = Kmer40; $body } "Kmer48" => { type $K = Kmer48; $body } "Kmer64" => { type $K = Kmer64; $body }
            other => panic!("unknown k-mer type {}", other),
        }
    }};
}

/// value family: all 4^K strings for K <= kmax_all, else P(K) = for each background base all values
/// with <= `hot` positions different from it, plus counter / LCG patterns
pub fn values(k: usize, kmax_all: usize, hot2: bool) -> (Vec<S>, bool) {
    if k <= kmax_all {
        return (all_strings(k).collect(), true);
    }
    let mut v: Vec<S> = vec![];
    for bg in 0..4u8 {
        v.push(vec![bg; k]);
        for i in 0..k {
            for b in 0..4u8 {
                if b == bg {
                    continue;
                }
                let mut s = vec![bg; k];
                s[i] = b;
                v.push(s.clone());
                if hot2 {
                    for j in i + 1..k {
                        for b2 in [(bg + 1) % 4, (bg + 3) % 4] {
                            let mut t = s.clone();
                            t[j] = b2;
                            v.push(t);
                        }
                    }
                }
            }
        }
    }
    v.push((0..k).map(|i| (i % 4) as u8).collect());
    v.push((0..k).map(|i| ((i * 7 + 3) / 2 % 4) as u8).collect());
    let mut g = Lcg(k as u64 * 31 + 5);
    for _ in 0..8 {
        v.push(g.dna(k));
    }
    // even-length reverse-complement palindromes and near-palindromes
    if k % 2 == 0 {
        for _ in 0..4 {
            let w = g.dna(k / 2);
            let mut p = w.clone();
            p.extend(rc(&w));
            v.push(p.clone());
            p[0] = (p[0] + 1) % 4;
            v.push(p);
        }
    }
    v.sort();
    v.dedup();
    (v, false)
}

/// value words for packed writes: all-T, all-A, counter, and a value whose bits below the run are garbage
pub fn words() -> Vec<(Vec<u8>, u64)> {
    let mut out = vec![];
    for vp in 0..4 {
        let vals: Vec<u8> = (0..32).map(|i| match vp { 0 => 3, 1 => 0, 2 => ((i + 1) % 4) as u8, _ => ((i * 3 + 2) % 4) as u8 }).collect();
        let mut w = 0u64;
        for i in 0..32 {
            w |= (vals[i] as u64) << (62 - 2 * i);
        }
        out.push((vals, w));
    }
    out
}
