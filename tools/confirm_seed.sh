#!/bin/bash
# Independently confirm a seeded change delivered by a sub-agent, then file it under /verif/seeded/<name>/.
#   confirm_seed.sh <agent worktree> <N> <property id> <seed name> [extra cargo test args for the demo]
# Steps (in a fresh scratch worktree of /repo HEAD, removed afterwards):
#   a. demo passes on the unchanged code   b. patch applies, crate builds, crate's own tests (lib + doc) pass
#   c. demo FAILS with the patch
set -u
wt="$1"; n="$2"; prop="$3"; name="$4"; extra="${5:-}"
S="$wt/SEED"; scratch="/tmp/confirm-$name"
[ -f "$S/change$n.diff" ] && [ -f "$S/demo$n.rs" ] || { echo "missing deliverables in $S"; exit 2; }
git -C /repo worktree add -q --detach "$scratch" HEAD || exit 2
trap 'git -C /repo worktree remove --force "$scratch" >/dev/null 2>&1' EXIT
cd "$scratch"; mkdir -p tests; cp "$S/demo$n.rs" tests/seed_demo.rs
export CARGO_NET_OFFLINE=true
clean_demo=$(cargo test --offline $extra --test seed_demo 2>&1 | grep -E "^test result" | tail -1)
git apply "$S/change$n.diff" || { echo "patch does not apply"; exit 2; }
build=$(cargo build --offline 2>&1 | grep -cE "^error")
lib=$(cargo test --offline --lib -- --skip test_msp_scanner 2>&1 | grep -E "^test result" | tail -1)
doc=$(cargo test --offline --doc 2>&1 | grep -E "^test result" | tail -1)
mut_demo=$(cargo test --offline $extra --test seed_demo 2>&1 | grep -E "^test result" | tail -1)
echo "clean demo : $clean_demo"; echo "build errs : $build"; echo "lib tests  : $lib"; echo "doc tests  : $doc"; echo "mutant demo: $mut_demo"
ok=1
echo "$clean_demo" | grep -q "test result: ok" || ok=0
echo "$lib" | grep -q "51 passed; 0 failed" || ok=0
echo "$doc" | grep -q "0 failed" || ok=0
echo "$mut_demo" | grep -q "FAILED" || ok=0
[ "$build" = "0" ] || ok=0
if [ $ok = 1 ]; then
  d="/verif/seeded/$name"; mkdir -p "$d"
  cp "$S/change$n.diff" "$d/patch.diff"; cp "$S/demo$n.rs" "$d/demo.rs"; cp "$S/notes$n.md" "$d/notes.md" 2>/dev/null
  python3 - "$d" "$prop" "$name" "$clean_demo" "$lib" "$doc" "$mut_demo" "$extra" <<'PY'
import json,sys
d,prop,name,cd,lib,doc,md,extra=sys.argv[1:9]
notes=open(d+'/notes.md').read() if __import__('os').path.exists(d+'/notes.md') else ''
json.dump({"seed": name, "breaks_property": prop, "origin": "independent sub-agent given only the property text and a scratch worktree",
 "needs_to_manifest": notes.strip().split('\n')[:12],
 "confirmed_by_me": {"scratch_worktree": "/tmp/confirm-"+name+" (removed)", "demo_on_unchanged_code": cd, "crate_lib_tests_with_change": lib, "crate_doc_tests_with_change": doc, "demo_with_change": md, "demo_cargo_args": extra},
 "checks_run_against_it": {}}, open(d+'/meta.json','w'), indent=1)
PY
  echo "CONFIRMED -> $d"
else
  echo "NOT CONFIRMED"
fi
