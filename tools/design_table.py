#!/usr/bin/env python3
"""Print states / transitions / wall of every evidence file (helper for the table in DESIGN.md section 3)."""
import json,glob,os
for f in sorted(glob.glob(os.path.join(os.path.dirname(__file__),'..','evidence','C*.json'))):
    e=json.load(open(f)); c=e['coverage']
    cb=c.get('checked_build',{})
    print(f"{e['property_id']} {e['tier']:8} states={c['states']:>12} transitions={c['transitions']:>14} nontrivial={c.get('distinct_nontrivial',0):>10} wall={e['wall_s']:>7.1f}s checked={cb.get('plan','-')[:10]} loom={'yes' if 'loom' in json.dumps(c)[:200000] and e['property_id']=='C19' else '-'}")
