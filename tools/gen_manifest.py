#!/usr/bin/env python3
"""Regenerates /verif/MANIFEST.json from the table below (kept in one place so that it stays valid)."""
import json, os, subprocess, sys
V = os.path.dirname(os.path.dirname(os.path.abspath(__file__)))

E1 = "bounded-exhaustive enumeration of inputs/configurations executed on the real code, compared with a string-level reference model"
E2 = "explicit-state search (stateright BFS) over operation histories of the real objects, invariant checked on every state against a reference value"
E3 = "controlled-scheduler exploration (loom, DPOR, preemption-bounded) of the real BaseGraph::finish with the boomphf dependency compiled against loom atomics"

CHECKS = {
 # id: (built?, engine, technique, level text, level note, design_ref)
 "C01": (True, "E1", E1 + "; all read sets up to a length bound at K=4,5,6 x strandedness x entry points x sub-tables",
         "Every read set within the stated length/count bound (K=4,5,6; both strand modes; all entry points; all sub-tables of small tables; three reductions) is run through the real compression code and the resulting node set is compared with the reference table: exact cover, no alien k-mer, every intra-node step backed by extensions on both k-mers, payload = fold. Exhaustive inside the bound, structure catalogue for the K>=8 types.",
         "trusts rustc, boomphf, the 300-line string reference model (vcommon::refmodel); behaviours needing longer/more reads than the bound are not covered", "3/C01"),
 "C02": (True, "E1", E1 + "; node partition compared for EQUALITY with union-find components of joinable links",
         "For every read set within the bound, on pruned tables and on bare key lists, with the always-true and the payload-equality join predicate, the node partition must equal the reference's maximal unbranched paths (both over- and under-merging are violations; is_compressed is not consulted).",
         "same trusted base as C01; isolated cycles: any cut accepted", "3/C02"),
 "C03": (True, "E1", E1 + "; every node x side x base, all 4^K link lookups, all censor subsets of small tables/graphs, all short edge walks",
         "On every finished graph of the families (direct, re-compressed, unpruned, single shards): extension sets, edge targets, arrival sides, flip flags, symmetry and the (K+1)-mer set are compared with the reference; find_link is queried for all 4^K k-mers; the pruning operations are run on every subset of small tables / graphs; best-path queries and all edge walks of <= 3 nodes are spelled and compared.",
         "same trusted base as C01; max_path_beam judged for walk validity only", "3/C03"),
 "C04": (True, "E1", E1 + "; read sets x (K,P) pairs x permutations x piece containers x shard order x per-shard pruning, star/mini/full configuration products",
         "Every read set within the bound is run through the real sharded pipeline (msp_sequence -> per-bucket filter_kmers -> compress -> combine -> finish -> compress_graph) under every listed configuration and compared both with the reference (partition, payload, adjacency) and with the crate's own one-pass pipeline.",
         "unstranded requires msp rc=true (precondition of the property); configuration dimensions are fully crossed only over the smaller family (stated per part in the evidence)", "3/C04"),
 "C06": (True, "E1", E1 + "; all 2^n strand-flip masks per read set, three pipeline variants, differential against the unflipped run and the reference",
         "For every read set within the bound and EVERY subset of reads reverse-complemented (n<=3), the unstranded table and the direct / re-compressed / sharded graphs must be identical to the unflipped run and keys canonical; in stranded mode tables and links must be exactly the forward windows/(K+1)-mers and a read never shares a key with its own reverse complement unless the strings share the window.",
         "same trusted base as C01", "3/C06"),
 "C09": (True, "E1", E1 + "; start graphs = singletons / compressed / every 2-partition combined in both orders; every censor subset of small graphs; sum and colour reductions",
         "For every read set within the bound, every start graph (one k-mer per node, fully compressed, every 2-partition of small tables combined in both orders) is re-compressed and compared with the reference unitigs/payload/adjacency and with the direct route; idempotence is checked; for small start graphs EVERY censor subset is applied and compared with the reference of the surviving sub-table.",
         "built without debug assertions; trusted base as C01", "3/C09"),
 "C18": (True, "E2+E1", E2 + " (iterator state graph, closed) + " + E1,
         "E2: the complete state graph of the real node k-mer iterator under next()/nth(n) (n below/above the short-skip threshold, inside/at/beyond the remaining count) is explored to closure for nodes of 1..10(14) k-mers placed first/middle/last in the packed store, every output compared with a slice-iterator model. E1: on every graph of the families and long LCG reads the flattened iteration yields every k-mer once and Mphf::from_chunked_iterator assigns distinct slots 0..n-1.",
         "state key = remaining output of the real iterator (determines its private position and current k-mer); from_chunked_iterator_parallel is not exercised (needs boomphf's 'parallel' path with spin waits)", "3/C18"),
 "C20": (True, "E1", E1 + "; serde_json as parser oracle; GFA link multiset normalised under strand flip compared with the string-level adjacency",
         "For every graph of the families: serde JSON round trip of BaseGraph/DebruijnGraph answers every query identically; GFA (write_gfa, to_gfa, to_gfa_with_tags) lists every node once, no non-adjacency, every adjacency exactly once (palindromic single-k-mer nodes lenient), K-1M overlaps; JSON export parses and lists every node and exactly the right-going links, with and without a rest object; all value kinds round-trip over pattern families.",
         "only the JSON serde format is available offline; serde_json trusted", "3/C20"),
}

NOT_BUILT_REASON = "check not built yet in this round (planned in DESIGN.md section 3); not claimed until it exists"

def main():
    props = [json.loads(l) for l in open(os.path.join(V, "properties.jsonl"))]
    checks, na = [], []
    for p in props:
        pid = p["id"]
        c = CHECKS.get(pid)
        if not c or not c[0]:
            na.append({"property_id": pid, "reason": NOT_BUILT_REASON})
            continue
        _, engine, tech, text, note, ref = c
        checks.append({
            "property_id": pid,
            "quick_cmd": f"./check {pid} quick",
            "thorough_cmd": f"./check {pid} thorough",
            "evidence_file": f"/verif/evidence/{pid}.json",
            "replay_cmd_template": "./check --replay {path}",
            "engine": engine,
            "level_claimed": {"category": "model_checking", "text": text, "design_ref": "DESIGN.md section " + ref},
            "level_note": note,
            "technique": tech,
        })
    try:
        hooks_commit = subprocess.check_output(["git", "-C", "/repo", "log", "--format=%h", "--grep", "^verif hooks", "-n", "1"], text=True).strip()
    except Exception:
        hooks_commit = ""
    m = {
        "version": 1,
        "setup_cmd": "./check --build",
        "hooks": {
            "guard": "cargo feature verif_hooks",
            "enable": "harness crates depend on debruijn = { path = \"/repo\", features = [\"verif_hooks\"] }",
            "baseline_off_cmd": "cd /repo && cargo test --offline --no-fail-fast -- --skip test_msp_scanner",
            "source_commits": [hooks_commit] if hooks_commit else [],
            "add_only": True,
        },
        "engines": [
            {"name": "E1", "path": "harness/vc-graph harness/vc-filter harness/vc-msp harness/vc-kmer harness/vc-seq", "serves_properties": [k for k, v in CHECKS.items() if v[0] and "E1" in v[1]], "kind_free_text": E1},
            {"name": "E2", "path": "harness/vc-kmer harness/vc-seq harness/vc-graph", "serves_properties": [k for k, v in CHECKS.items() if v[0] and "E2" in v[1]], "kind_free_text": E2},
            {"name": "E3", "path": "harness-loom", "serves_properties": [k for k, v in CHECKS.items() if v[0] and "E3" in v[1]], "kind_free_text": E3},
        ],
        "checks": checks,
        "not_applicable": na,
        "notes": "All checks decide by exhaustive enumeration within stated bounds (model-checking family). known_findings.json lists repaired defects (status fixed; nothing is suppressed). seeded/ holds property-breaking changes used to demonstrate detection.",
    }
    json.dump(m, open(os.path.join(V, "MANIFEST.json"), "w"), indent=1)
    print("wrote MANIFEST.json:", len(checks), "checks,", len(na), "not claimed")

if __name__ == "__main__":
    main()
