#!/usr/bin/env python3
"""Regenerates /verif/MANIFEST.json from the table below (kept in one place so that it stays valid)."""
import json, os, subprocess, sys
V = os.path.dirname(os.path.dirname(os.path.abspath(__file__)))

E1 = "bounded-exhaustive enumeration of inputs/configurations executed on the real code, compared with a string-level reference model"
E2 = "explicit-state search (stateright BFS) over operation histories of the real objects, invariant checked on every state against a reference value"
E3 = "controlled-scheduler exploration (loom, DPOR, preemption-bounded) of the real BaseGraph::finish with the boomphf dependency compiled against loom atomics"

CHECKS = {
 # id: (built?, engine, technique, level text, level note, design_ref)
 "C01": (True, "E1", E1 + "; all read sets up to a length bound at K=4,5,6 x strandedness x entry points x sub-tables",
         "Every read set within the stated length/count bound (K=4,5,6; both strand modes; all entry points; all sub-tables of small tables; three reductions) is run through the real compression code and the resulting node set is compared with the reference table: exact cover, no alien k-mer, every intra-node step backed by extensions on both k-mers, payload = fold. Exhaustive inside the bound, structure catalogue for the K>=8 types.",
         "trusts rustc, boomphf, the 300-line string reference model (vcommon::refmodel); behaviours needing longer/more reads than the bound are not covered", "3/C01"),
 "C02": (True, "E1", E1 + "; node partition compared for EQUALITY with union-find components of joinable links",
         "For every read set within the bound, on pruned tables and on bare key lists, with the always-true and the payload-equality join predicate, the node partition must equal the reference's maximal unbranched paths (both over- and under-merging are violations; is_compressed is not consulted).",
         "same trusted base as C01; isolated cycles: any cut accepted", "3/C02"),
 "C03": (True, "E1", E1 + "; every node x side x base, all 4^K link lookups, all censor subsets of small tables/graphs, all short edge walks",
         "On every finished graph of the families (direct, re-compressed, unpruned, single shards): extension sets, edge targets, arrival sides, flip flags, symmetry and the (K+1)-mer set are compared with the reference; find_link is queried for all 4^K k-mers; the pruning operations are run on every subset of small tables / graphs; best-path queries and all edge walks of <= 3 nodes are spelled and compared.",
         "same trusted base as C01; max_path_beam judged for walk validity only", "3/C03"),
 "C04": (True, "E1", E1 + "; read sets x (K,P) pairs x permutations x piece containers x shard order x per-shard pruning, star/mini/full configuration products",
         "Every read set within the bound is run through the real sharded pipeline (msp_sequence -> per-bucket filter_kmers -> compress -> combine -> finish -> compress_graph) under every listed configuration and compared both with the reference (partition, payload, adjacency) and with the crate's own one-pass pipeline.",
         "unstranded requires msp rc=true (precondition of the property); configuration dimensions are fully crossed only over the smaller family (stated per part in the evidence)", "3/C04"),
 "C06": (True, "E1", E1 + "; all 2^n strand-flip masks per read set, three pipeline variants, differential against the unflipped run and the reference",
         "For every read set within the bound and EVERY subset of reads reverse-complemented (n<=3), the unstranded table and the direct / re-compressed / sharded graphs must be identical to the unflipped run and keys canonical; in stranded mode tables and links must be exactly the forward windows/(K+1)-mers and a read never shares a key with its own reverse complement unless the strings share the window.",
         "same trusted base as C01", "3/C06"),
 "C09": (True, "E1", E1 + "; start graphs = singletons / compressed / every 2-partition combined in both orders; every censor subset of small graphs; sum and colour reductions",
         "For every read set within the bound, every start graph (one k-mer per node, fully compressed, every 2-partition of small tables combined in both orders) is re-compressed and compared with the reference unitigs/payload/adjacency and with the direct route; idempotence is checked; for small start graphs EVERY censor subset is applied and compared with the reference of the surviving sub-table.",
         "built without debug assertions; trusted base as C01", "3/C09"),
 "C18": (True, "E2+E1", E2 + " (iterator state graph, closed) + " + E1,
         "E2: the complete state graph of the real node k-mer iterator under next()/nth(n) (n below/above the short-skip threshold, inside/at/beyond the remaining count) is explored to closure for nodes of 1..10(14) k-mers placed first/middle/last in the packed store, every output compared with a slice-iterator model. E1: on every graph of the families and long LCG reads the flattened iteration yields every k-mer once and Mphf::from_chunked_iterator assigns distinct slots 0..n-1.",
         "state key = remaining output of the real iterator (determines its private position and current k-mer); from_chunked_iterator_parallel is not exercised (needs boomphf's 'parallel' path with spin waits)", "3/C18"),
 "C20": (True, "E1", E1 + "; serde_json as parser oracle; GFA link multiset normalised under strand flip compared with the string-level adjacency",
         "For every graph of the families: serde JSON round trip of BaseGraph/DebruijnGraph answers every query identically; GFA (write_gfa, to_gfa, to_gfa_with_tags) lists every node once, no non-adjacency, every adjacency exactly once (palindromic single-k-mer nodes lenient), K-1M overlaps; JSON export parses and lists every node and exactly the right-going links, with and without a rest object; all value kinds round-trip over pattern families.",
         "only the JSON serde format is available offline; serde_json trusted", "3/C20"),
 "C05": (True, "E1", E1 + "; the memory budget (pass plan) is an enumerated environment answer (hook MEM_UNIT/LAST_PASSES): every plan the planner can produce is executed",
         "Every read set within the bound x boundary-extension variants x labels is counted by the real filter_kmers under CountFilter(n) for every n, CountFilterSet(n) and a recording summarizer (exactly once / exact observation multiset / input order), for an enumerated set of memory budgets; the order-4 de Bruijn read (all 256 buckets) is run under EVERY budget so that all 31 pass plans occur; saturating counts; all 4^K present/absent lookups. Compared with the reference grouping.",
         "hook replaces only the 10^9 constant; 'every pass count 1..256' is read as every pass count the planner can produce (31 values)", "3/C05"),
 "C07": (True, "E1", E1 + "; every sequence up to length 10 (12) x p in {2,3,4} x k in p..p+5 x 6 score functions; interval laws by brute force",
         "Scanner::scan (and simple_scan) on EVERY sequence up to the length bound for P in {Kmer2,3,4}, k = p..p+5 including k = p, six score functions including constant and heavily tied ones, three containers; all interval laws of the statement are decided by brute force on each result; structured long sequences for P in {5,8,16}.",
         "content exhaustive for p <= 4 and length <= bound only", "3/C07"),
 "C08": (True, "E1", E1 + "; every read (plus its reverse complement) and every pair of short reads x permutations x containers x rc mode",
         "msp_sequence on every read up to the length bound (with its reverse complement as a second read in rc mode) and every ordered pair of short reads: the k-mer -> bucket map over the whole read set must be a function, pieces must be the chained exact substrings with the true flanking bases as extensions, for default and arbitrary permutations, all piece containers, rc mode on and off.",
         "content exhaustive for p <= 4 only; permutation family: default, reversed, rotation, affine, two LCG (seed-dependent)", "3/C08"),
 "C10": (True, "E1", E1 + "; complete value space for K <= 8 (12 in thorough) x every operation x every in-range argument; lane-pattern family for larger K",
         "For all 20 instantiable k-mer types every operation of the statement is executed on ALL 4^K values (K <= 8; thorough K <= 12) with every in-range argument and compared with the plain string operation; K >= 10 (14): every value with <= 2 positions different from a constant background plus counter/LCG/palindromic patterns.",
         "K >= 10: coverage over which lanes an operation touches, not over content (exhaustive=false there)", "3/C10"),
 "C11": (True, "E2", E2 + "; state = (real k-mer, reference string); invariant = one raw representation per string + Eq/Ord/Hash against probes",
         "stateright BFS over k-mer operation histories for all 20 types: to closure (all 4^K strings, every position) for K <= 6 (8), depth-bounded (3/4) otherwise; on every state the raw value must equal the canonical construction of its string and compare/hash like the string against ~200 probes; afterwards sort/dedup/group/binary-search/perfect-hash lookup on the reached values agree with the strings.",
         "depth-bounded for larger K; action alphabet restricted to boundary positions there", "3/C11"),
 "C12": (True, "E1", E1 + "; all k-mer values (K<=8), all 256 extension sets, all strings up to length 9 (11) through every container",
         "Reverse-complement laws (position law, involution with raw equality, commutation with k-mer extraction and with extension sets, min_rc, min_rc_flip, is_palindrome) on all k-mer values for K <= 8 (12), all 256 Exts, and all strings up to the length bound plus structured longer ones through DnaString, slices at block-boundary offsets with rc nesting 1..3, and Lmers of capacity 1..6.",
         "structured content beyond the length bound", "3/C12"),
 "C13": (True, "E1", E1 + "; containers x 20 k-mer types x all strings up to length 7 (9) and structured strings to 134 x every position",
         "Every extraction route (get_kmer at every position, first/last/term/both_term_kmer, iter_kmers, kmers_from_bytes/ascii, iter_kmer_exts with 6 boundary sets) of every container (DnaString, DnaBytes, DnaSlice, forward/rc slices at block-boundary offsets, Lmer capacities 1..6) for all 20 k-mer types is compared with the windows of the base vector.",
         "content exhaustive for length <= 7 (9); longer sequences are counter/LCG/1-hot patterns crossing every block boundary", "3/C13"),
 "C14": (True, "E2+E1", E2 + "; state = (real DnaString, Vec<u8>, depth)",
         "stateright BFS 4 (5) operations deep from 23 start states over push/extend/push_bytes/set/clear/blank/rc/reverse/re-construction routes; every state is compared with the Vec<u8> model on every observer and must be raw-equal to the canonical construction (so Eq/Hash/Ord depend on the base sequence only); ordering against probes and prefix rules; PackedDnaStringSet on every list of <= 3 sequences from boundary lengths.",
         "depth-bounded histories; lengths cut at 200", "3/C14"),
 "C15": (True, "E2+E1", E2 + " (view compositions) + " + E1 + " (Hamming distance)",
         "stateright BFS over compositions of slice()/rc() (depth 4/5) on all backing strings up to length 5 (7) and counter strings of length 7/33/70/300: each view must read, render (incl. Debug), convert, compare and yield k-mers like the model substring; hamming_dist for lengths 0..70 and around 96/128/256/1024/2048/4096(/5000), 5 offsets, both strands, difference sets none/all/first+last/EVERY single position.",
         "depth-bounded compositions", "3/C15"),
 "C16": (True, "E1", E1 + "; every byte value at every lane, both internal paths (hook FORCE_SCALAR_ASCII)",
         "from_acgt_bytes with the vector path and (hook) the crate's own scalar fallback on every byte value at every lane on three backgrounds with several tails, every lane pair, every length 0..140, all strings over a 6-letter alphabet at the block seams; strict constructor on all strings up to length 7 (8) over a 6-letter alphabet plus non-ASCII chars; hashed-N constructor on all strings up to length 6 (7) x 3 names with a global (name,pos)->base table.",
         "AVX2 must be present on the machine for the vector path to be exercised (reported in the evidence)", "3/C16"),
 "C17": (True, "E1+E2", E1 + " (every capacity x length x write) + " + E2 + " (write histories)",
         "Every Lmer capacity 1..6, every length 0..=max_len, three backgrounds: every set_mut, every set_slice_mut (position x run length x 4 words), rc, new, from_slice, k-mer extraction: only the addressed bases change and the raw value equals from_slice(expected); stateright BFS 4 (5) writes deep at word-boundary positions for capacities 1..3 (4, 6).",
         "E2 part depth-bounded", "3/C17"),
 "C19": (True, "E3+E1", E3 + "; plus " + E1 + " for the graph quantifier",
         "E3: loom explores every interleaving (DPOR; quick: 2 threads preemption bound 4 and 3 threads bound 1; thorough: 2 threads UNBOUNDED i.e. complete, 3 threads bound 3, 4 threads bound 2) of the real BaseGraph::finish on node lists whose end k-mers collide in the perfect-hash construction (so the shared collide bit and a second level are exercised); in every execution all 512 link lookups, all edge lists and the node order must equal the serial build and be identical across executions. E1: finish() == finish_serial() on every graph of the read-set families for all 4^K lookups, twice; a labelled native sampling run on 20k-150k-node graphs with 1..16 real rayon threads.",
         "the dependency boomphf is compiled from a mechanically derived copy (3 listed edits, conformance re-checked on every run) with loom atomics; rayon's work stealing is over-approximated by arbitrary interleaving of per-chunk bodies on a fixed loom thread pool; >= 10^5 nodes and 16-thread pools are covered by native sampling only (stated in the evidence)", "3/C19"),
}

NOT_BUILT_REASON = "check not built yet in this round (planned in DESIGN.md section 3); not claimed until it exists"

def main():
    props = [json.loads(l) for l in open(os.path.join(V, "properties.jsonl"))]
    checks, na = [], []
    for p in props:
        pid = p["id"]
        c = CHECKS.get(pid)
        if not c or not c[0]:
            na.append({"property_id": pid, "reason": NOT_BUILT_REASON})
            continue
        _, engine, tech, text, note, ref = c
        checks.append({
            "property_id": pid,
            "quick_cmd": f"./check {pid} quick",
            "thorough_cmd": f"./check {pid} thorough",
            "evidence_file": f"/verif/evidence/{pid}.json",
            "replay_cmd_template": "./check --replay {path}",
            "engine": engine,
            "level_claimed": {"category": "model_checking", "text": text, "design_ref": "DESIGN.md section " + ref},
            "level_note": note,
            "technique": tech,
        })
    try:
        hooks_commit = subprocess.check_output(["git", "-C", "/repo", "log", "--format=%h", "--grep", "^verif hooks", "-n", "1"], text=True).strip()
    except Exception:
        hooks_commit = ""
    m = {
        "version": 1,
        "setup_cmd": "./check --build",
        "hooks": {
            "guard": "cargo feature verif_hooks",
            "enable": "harness crates depend on debruijn = { path = \"/repo\", features = [\"verif_hooks\"] }",
            "baseline_off_cmd": "cd /repo && cargo test --offline --no-fail-fast -- --skip test_msp_scanner",
            "source_commits": [hooks_commit] if hooks_commit else [],
            "add_only": True,
        },
        "engines": [
            {"name": "E1", "path": "harness/vc-graph harness/vc-filter harness/vc-msp harness/vc-kmer harness/vc-seq", "serves_properties": [k for k, v in CHECKS.items() if v[0] and "E1" in v[1]], "kind_free_text": E1},
            {"name": "E2", "path": "harness/vc-kmer harness/vc-seq harness/vc-graph", "serves_properties": [k for k, v in CHECKS.items() if v[0] and "E2" in v[1]], "kind_free_text": E2},
            {"name": "E3", "path": "harness-loom", "serves_properties": [k for k, v in CHECKS.items() if v[0] and "E3" in v[1]], "kind_free_text": E3},
        ],
        "checks": checks,
        "not_applicable": na,
        "notes": "All checks decide by exhaustive enumeration within stated bounds (model-checking family). known_findings.json lists repaired defects (status fixed; nothing is suppressed). seeded/ holds 151 independently seeded property-breaking changes used to demonstrate detection (all reported by the quick tier), equivalent/ 24 property-preserving refactorings (no check raises an alarm). Every check runs twice: on the release build of the harness and on a second build with overflow checks and debug assertions on (quick: smoke plan or the short plan again; thorough: the whole quick plan); coverage of the second run is merged into the evidence under coverage.checked_build. Wide k-mer types (K >= 8) are driven by a structure catalogue and by the exhaustive small-K read-set families lifted through strand-symmetric substitution codes.",
    }
    json.dump(m, open(os.path.join(V, "MANIFEST.json"), "w"), indent=1)
    print("wrote MANIFEST.json:", len(checks), "checks,", len(na), "not claimed")

if __name__ == "__main__":
    main()
