#!/bin/bash
# Re-run, for every seeded change, the checks recorded as detecting it (quick tier) and report any that no
# longer do.  Also the seven reverted repairs (mutants/fix-D*.diff applied in reverse).
#   regress_seeds.sh [seed name pattern]
cd "$(dirname "$0")/.." || exit 2
pat="${1:-*}"
fail=0
for d in seeded/$pat/; do
  n=$(basename "$d")
  checks=$(python3 -c "
import json,sys
d=json.load(open('$d/meta.json'))
c=[k for k,v in d.get('checks_run_against_it',{}).items() if v.get('detected')]
print(' '.join(c[:1]))")
  [ -z "$checks" ] && { echo "$n: no detecting check recorded"; fail=1; continue; }
  out=$(tools/seedtest.sh "$d/patch.diff" $checks 2>&1 | grep -E "^C[0-9]+ exit=")
  if echo "$out" | grep -q "exit=1"; then echo "$n ok: $(echo "$out" | cut -c1-110)"; else echo "$n NOT DETECTED: $out"; fail=1; fi
done
exit $fail
