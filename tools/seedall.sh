#!/bin/bash
# Run a chosen list (default: all 20) of quick checks against one patch; print a one-line summary per check.
#   seedall.sh <patch.diff> [Cxx ...]
patch="$1"; shift
if [ $# -eq 0 ]; then set -- C01 C02 C03 C04 C05 C06 C07 C08 C09 C10 C11 C12 C13 C14 C15 C16 C17 C18 C19 C20; fi
exec "$(dirname "$0")/seedtest.sh" "$patch" "$@"
