#!/bin/bash
# Apply one patch to /repo's working tree, run the listed checks (quick tier), report which ones raise
# VIOLATION, and ALWAYS restore /repo afterwards.   usage: seedtest.sh <patch.diff> <Cxx> [Cyy ...]
#   -R as first argument applies the patch in reverse (used for the fix: commits = regression seeds)
set -u
REV=""
if [ "${1:-}" = "-R" ]; then REV="-R"; shift; fi
patch="$(readlink -f "$1")"; shift
cd /repo || exit 2
if [ -n "$(git status --porcelain --untracked-files=no)" ]; then echo "refusing: /repo working tree is not clean"; exit 2; fi
if ! git apply $REV "$patch"; then echo "patch does not apply"; exit 2; fi
trap 'git -C /repo checkout -- . >/dev/null 2>&1' EXIT
for p in "$@"; do
  out="$(cd /verif && ./check "$p" "${SEED_TIER:-quick}" 2>&1)"; rc=$?
  n=$(echo "$out" | grep -c '^VIOLATION')
  first=$(echo "$out" | grep -m1 'violation \[' | cut -c1-220)
  echo "$p exit=$rc violations_lines=$n $first"
  meta="$(dirname "$patch")/meta.json"
  if [ -f "$meta" ]; then
    python3 - "$meta" "$p" "$rc" "$first" "${SEED_TIER:-quick}" <<'PY'
import json,sys
m,p,rc,first,tier=sys.argv[1:6]
d=json.load(open(m)); d.setdefault("checks_run_against_it",{})[p]={"tier":tier,"exit":int(rc),"detected":int(rc)==1,"first_violation":first.strip()}
json.dump(d,open(m,"w"),indent=1)
PY
  fi
done
