#!/bin/bash
# Triage variant of seedtest.sh that leaves /repo and /verif/evidence alone (usable while a long run is
# checking /repo): the patch is applied to a scratch worktree, the harness is built against it through a
# cargo `paths` override into a scratch target dir, and the release binary of each listed check runs its quick
# plan with VERIF_DIR pointing at a scratch directory.  (No checked-build run, no loom.)  Results found this
# way are confirmed with seedtest.sh - the prescribed route - before they are recorded.
#   seedtest_iso.sh <patch.diff> <Cxx> [Cyy ...]        cleanup: seedtest_iso.sh --cleanup
set -u
ISO=/tmp/iso-repo; TGT=/tmp/iso-target; VD=/tmp/iso-verif
if [ "${1:-}" = "--cleanup" ]; then
  git -C /repo worktree remove --force "$ISO" 2>/dev/null; rm -rf "$TGT" "$VD"; git -C /repo worktree prune; exit 0
fi
patch="$(readlink -f "$1")"; shift
[ -d "$ISO" ] || git -C /repo worktree add -q --detach "$ISO" HEAD || exit 2
git -C "$ISO" checkout -q --detach "$(git -C /repo rev-parse HEAD)" && git -C "$ISO" checkout -- . || exit 2
git -C "$ISO" apply "$patch" || { echo "patch does not apply"; exit 2; }
trap 'git -C "$ISO" checkout -- . >/dev/null 2>&1' EXIT
mkdir -p "$VD"; cp /verif/known_findings.json "$VD/"
bin_for() { case "$1" in C01|C02|C03|C04|C06|C09|C18|C19|C20) echo vc-graph;; C05) echo vc-filter;; C07|C08) echo vc-msp;; C10|C11|C12) echo vc-kmer;; *) echo vc-seq;; esac; }
for p in "$@"; do
  b=$(bin_for "$p")
  if ! (cd /verif/harness && CARGO_TARGET_DIR="$TGT" cargo build --release --offline -q -p "$b" --config "paths=[\"$ISO\"]" >/dev/null 2>"$VD/build.log"); then
    echo "$p build failed"; grep -m3 -A6 "^error" "$VD/build.log"; continue
  fi
  out="$(VERIF_DIR="$VD" "$TGT/release/$b" "$p" quick 2>&1)"; rc=$?
  echo "$p exit=$rc $(echo "$out" | grep -m1 'violation \[' | cut -c1-220)"
done
