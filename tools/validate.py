#!/opt/veriftools/pyvenv/bin/python
import json, jsonschema, sys, glob
ok = True
try:
    jsonschema.validate(json.load(open('/verif/MANIFEST.json')), json.load(open('/root/.vp/MANIFEST.schema.json'))); print('MANIFEST valid')
except Exception as e:
    ok = False; print('MANIFEST INVALID', str(e)[:300])
sch = json.load(open('/root/.vp/EVIDENCE.schema.json'))
for f in sorted(glob.glob('/verif/evidence/*.json')):
    try:
        jsonschema.validate(json.load(open(f)), sch); print(f, 'valid')
    except Exception as e:
        ok = False; print(f, 'INVALID', str(e)[:300])
sys.exit(0 if ok else 1)
